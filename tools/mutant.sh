#!/bin/bash
# usage: tools/mutant.sh [--tests] <patch> <ID>...   — apply a seeded change to /repo, run the
# quick checks named, always revert. Prints one line per check: DETECTED / MISSED / MACHINERY.
TESTS=0
if [ "$1" = "--tests" ]; then TESTS=1; shift; fi
PATCH="$(realpath "$1")"; shift
cd /repo || exit 2
if ! git diff --quiet; then echo "/repo has uncommitted changes; refusing"; exit 2; fi
git apply "$PATCH" || { echo "patch does not apply"; exit 2; }
trap 'git -C /repo checkout -q -- .; git -C /repo clean -fdq -e target' EXIT
if [ $TESTS = 1 ]; then
  if cargo test --workspace --no-fail-fast --offline >/tmp/mutant-tests.$$ 2>&1; then echo "repo tests: pass"; else echo "repo tests: FAIL (mutant is not a valid seeded change)"; grep -E "^test .* FAILED|panicked" /tmp/mutant-tests.$$ | head; fi
  rm -f /tmp/mutant-tests.$$
fi
for id in "$@"; do
  out=$(TCSS_OUT_DIR=/tmp/mutant-out /verif/check "$id" "${TIER:-quick}" 2>&1); rc=$?
  case $rc in
    0) echo "$id: MISSED";;
    1) echo "$id: DETECTED  $(echo "$out" | grep -m1 -A1 '^VIOLATION' | tail -1 | cut -c1-220)";;
    *) echo "$id: MACHINERY rc=$rc $(echo "$out" | tail -2 | tr '\n' ' ' | cut -c1-300)";;
  esac
done
