#!/bin/bash
# Like recheck_seeds.sh, but never touches /repo: every stored seed is applied to the scratch
# worktree of tools/scratch_check.sh and its own property's quick check is run there.
# usage: tools/recheck_seeds_scratch.sh [name-pattern]
cd /verif
for S in seeded/${1:-C*}; do
  [ -f $S/patch.diff ] || continue
  name=$(basename $S); id=${name:0:3}
  r=$(tools/scratch_check.sh $S/patch.diff $id | tail -1)
  echo "$name $r" | cut -c1-200
  python3 - "$S" "$id" "$r" <<'PY'
import json,sys,re
s,id_,r=sys.argv[1:4]
m=json.load(open(s+'/meta.json'))
mm=re.match(r'(C\d+): (\w+)(.*)',r)
m['own_check_final']={'check':id_,'verdict':mm.group(2) if mm else 'UNKNOWN','first_line':(mm.group(3).strip()[:300] if mm else r[:300]),'how':'patch applied to a scratch worktree of /repo HEAD (tools/scratch_check.sh), harness rebuilt against it, quick check of the seed\'s own property'}
json.dump(m,open(s+'/meta.json','w'),indent=1)
PY
done
