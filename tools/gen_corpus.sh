#!/bin/bash
# Regenerates /verif/fixtures/pinned from the pinned tree (a6bc6ed). The harness is built
# against a scratch worktree of that commit carrying only the hook commits (they touch
# core/inmemory.rs, core/lib.rs, core/Cargo.toml and add core/src/verif_sync.rs: the SQLite
# crate and the handlers are byte-for-byte the pinned ones). Scratch is removed afterwards.
set -e
PIN=a6bc6ed
WT=/tmp/tcss-pinned-wt
HS=/tmp/tcss-pinned-harness
git -C /repo worktree remove --force $WT 2>/dev/null || true
rm -rf $WT $HS
git -C /repo worktree add --detach $WT $PIN
( cd $WT && git cherry-pick -n b92f929 004e104 )
mkdir -p $HS
cp -r /verif/harness/src /verif/harness/Cargo.toml /verif/harness/Cargo.lock $HS/
sed -i "s|/repo/|$WT/|g" $HS/Cargo.toml
mkdir -p $HS/.cargo
printf '[net]\noffline = true\n[build]\ntarget-dir = "/tmp/tcss-pinned-target"\n' > $HS/.cargo/config.toml
( cd $HS && cargo build --release --offline )
# "tools/gen_corpus.sh extra": only add the hand-scripted legacy directories to the existing corpus
if [ "${1:-}" = "extra" ]; then
  TCSS_VERIF_DIR=/verif /tmp/tcss-pinned-target/release/tcss-verif gen-corpus-extra /verif/fixtures/pinned
else
  TCSS_VERIF_DIR=/verif /tmp/tcss-pinned-target/release/tcss-verif gen-corpus /verif/fixtures/pinned
fi
git -C /repo worktree remove --force $WT
rm -rf $HS /tmp/tcss-pinned-target $WT
git -C /repo worktree prune
