#!/bin/bash
# Re-runs, for every stored seeded change, the quick check of the property it was written for
# (patch applied to /repo, reverted straight afterwards) and records the verdict in its meta.json.
cd /verif
for S in seeded/C*; do
  [ -f $S/patch.diff ] || continue
  name=$(basename $S); id=${name:0:3}
  r=$(tools/mutant.sh $S/patch.diff $id | tail -1)
  echo "$name $r" | cut -c1-200
  python3 - "$S" "$id" "$r" <<'PY'
import json,sys,re
s,id_,r=sys.argv[1:4]
m=json.load(open(s+'/meta.json'))
mm=re.match(r'(C\d+): (\w+)(.*)',r)
m['own_check_final']={'check':id_,'verdict':mm.group(2) if mm else 'UNKNOWN','first_line':(mm.group(3).strip()[:300] if mm else r[:300]),'how':'patch applied to /repo with git apply, ./check <id> quick, git checkout -- .'}
json.dump(m,open(s+'/meta.json','w'),indent=1)
PY
done
