#!/bin/bash
# Every quick check against every stored seeded change, WITHOUT touching /repo: a scratch
# worktree of /repo's HEAD gets each patch in turn, and a copy of the harness whose path
# dependencies point at that worktree is (re)built for it. Writes /verif/seeded/matrix.json
# (seed -> check -> DETECTED / MISSED / MACHINERY). Scratch is removed at the end.
WT=/tmp/tcss-mx-wt
HS=/tmp/tcss-mx-harness
TG=/tmp/tcss-mx-target
OUT=/verif/seeded/matrix.json
git -C /repo worktree remove --force $WT 2>/dev/null; rm -rf $WT $HS
git -C /repo worktree add --detach $WT HEAD >/dev/null || exit 2
mkdir -p $HS/.cargo
cp -r /verif/harness/src /verif/harness/Cargo.toml /verif/harness/Cargo.lock $HS/
sed -i "s|/repo/|$WT/|g" $HS/Cargo.toml
printf '[net]\noffline = true\n[build]\ntarget-dir = "%s"\n' $TG > $HS/.cargo/config.toml
echo "{" > $OUT.tmp
first=1
for S in ${SEEDS:-/verif/seeded/C*}; do
  id=$(basename $S)
  ( cd $WT && git checkout -q -- . && git clean -fdq && git apply $S/patch.diff ) || { echo "cannot apply $id"; continue; }
  ( cd $HS && cargo build --release --offline >/tmp/tcss-mx-build.log 2>&1 ) || { echo "$id: harness build failed"; tail -5 /tmp/tcss-mx-build.log; continue; }
  ( cd $WT && CARGO_TARGET_DIR=$TG/repo-bin cargo build --release --offline -p taskchampion-sync-server --bin taskchampion-sync-server >/tmp/tcss-mx-build.log 2>&1 ) || echo "$id: server binary build failed"
  [ $first = 1 ] || echo "," >> $OUT.tmp; first=0
  echo "\"$id\": {" >> $OUT.tmp
  f2=1
  for c in ${CHECKS:-C01 C02 C03 C04 C05 C06 C07 C08 C09 C10 C11 C12 C13 C14 C15 C16 C17 C18 C19 C20}; do
    TCSS_VERIF_DIR=/verif TCSS_OUT_DIR=/tmp/tcss-mx-out TCSS_SERVER_BIN=$TG/repo-bin/release/taskchampion-sync-server TCSS_THREADS=${TCSS_THREADS:-8} $TG/release/tcss-verif check $c quick > /tmp/tcss-mx.out 2>&1; rc=$?
    case $rc in 0) v=MISSED;; 1) v=DETECTED;; *) v=MACHINERY;; esac
    [ $f2 = 1 ] || echo "," >> $OUT.tmp; f2=0
    echo -n "\"$c\": \"$v\"" >> $OUT.tmp
    echo "$id $c $v"
  done
  echo "}" >> $OUT.tmp
done
echo "}" >> $OUT.tmp
mv $OUT.tmp $OUT
git -C /repo worktree remove --force $WT; rm -rf $HS $TG /tmp/tcss-mx-out /tmp/tcss-mx.out /tmp/tcss-mx-build.log $WT
git -C /repo worktree prune
