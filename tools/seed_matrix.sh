#!/bin/bash
# Runs every quick check against every stored seeded change (applied to /repo, reverted
# afterwards) and writes /verif/seeded/matrix.json: seed -> check -> DETECTED / MISSED / MACHINERY.
cd /repo || exit 2
if ! git diff --quiet; then echo "/repo dirty"; exit 2; fi
OUT=/verif/seeded/matrix.json
echo "{" > $OUT.tmp
first=1
for S in /verif/seeded/C*; do
  id=$(basename $S)
  git apply $S/patch.diff || { echo "cannot apply $id"; continue; }
  [ $first = 1 ] || echo "," >> $OUT.tmp; first=0
  echo "\"$id\": {" >> $OUT.tmp
  f2=1
  for c in C01 C02 C03 C04 C05 C06 C07 C08 C09 C10 C11 C12 C13 C14 C15 C16 C17 C18 C19 C20; do
    TCSS_OUT_DIR=/tmp/seedmatrix-verif /verif/check $c quick > /tmp/seedmatrix.out 2>&1; rc=$?
    case $rc in 0) v=MISSED;; 1) v=DETECTED;; *) v=MACHINERY;; esac
    [ $f2 = 1 ] || echo "," >> $OUT.tmp; f2=0
    echo -n "\"$c\": \"$v\"" >> $OUT.tmp
    echo "$id $c $v"
  done
  echo "}" >> $OUT.tmp
  git checkout -q -- . ; git clean -fdq -e target
done
echo "}" >> $OUT.tmp
mv $OUT.tmp $OUT
rm -rf /tmp/seedmatrix-verif /tmp/seedmatrix.out
