#!/bin/bash
# usage: tools/confirm_seed.sh <Cxx> <demo-src-relative-to-_out/demo> <dest-path-in-repo> "<cargo test command>" [<Cxx checks to run> ...]
# Confirms a sub-agent's seeded change in its scratch worktree (tests pass with the change, the
# demonstration fails with it and passes without), then runs our checks against /repo with the
# change applied (reverted straight afterwards) and stores everything under /verif/seeded/<id>/.
ID=$1; DEMO=$2; DEST=$3; CMD=$4; shift 4
WT=${SEED_WT:-/tmp/seed-$ID}
OUT=$WT/_out
cd $WT || exit 2
git checkout -q -- . ; git clean -fdq -e _out -e target
git apply --check $OUT/patch.diff || { echo "patch does not apply"; exit 2; }
git apply $OUT/patch.diff
echo "== repo test suite with the change"
cargo test --workspace --no-fail-fast --offline 2>&1 | grep -E "^test result|FAILED" | tr '\n' ' '; echo
SUITE=$(cargo test --workspace --no-fail-fast --offline 2>&1 | grep -E "^test result" | awk '{p+=$4; f+=$6} END {print p" passed, "f" failed"}')
echo "suite: $SUITE"
mkdir -p $(dirname $DEST); cp $OUT/demo/$DEMO $DEST
echo "== demonstration WITH the change (must fail)"
eval "$CMD" > /tmp/demo-with.$$ 2>&1; RC_WITH=$?; grep -E "^test result|panicked|FAILED" /tmp/demo-with.$$ | head -5
git apply -R $OUT/patch.diff
echo "== demonstration WITHOUT the change (must pass)"
eval "$CMD" > /tmp/demo-without.$$ 2>&1; RC_WITHOUT=$?; grep -E "^test result" /tmp/demo-without.$$ | head -3
rm -f $DEST /tmp/demo-with.$$ /tmp/demo-without.$$
echo "demo rc with=$RC_WITH without=$RC_WITHOUT"
if [ $RC_WITH = 0 ] || [ $RC_WITHOUT != 0 ]; then echo "NOT CONFIRMED"; exit 1; fi
echo "== our checks against /repo with the change applied"
RES=""
for c in "$@"; do
  r=$(${CHECKER:-/verif/tools/mutant.sh} $OUT/patch.diff $c | tail -1); echo "$r"; RES="$RES$r\n"
done
S=/verif/seeded/${SEED_NAME:-$ID}
mkdir -p $S/demo
cp $OUT/patch.diff $S/patch.diff
cp -r $OUT/demo/* $S/demo/
cp $OUT/notes.md $S/notes.md 2>/dev/null
python3 - "$ID" "$SUITE" "$RC_WITH" "$RC_WITHOUT" "$CMD" "$DEST" "$RES" "${SEED_NAME:-$ID}" <<'PY'
import json,sys,re
id_,suite,rcw,rcwo,cmd,dest,res,name=sys.argv[1:9]
checks={}
for line in res.split('\\n'):
    m=re.match(r'(C\d+): (\w+)(.*)',line)
    if m: checks[m.group(1)]={'verdict':m.group(2),'first_line':m.group(3).strip()[:300]}
meta={
 'property': id_,
 'source': 'independent sub-agent given only the property text and a scratch worktree of /repo',
 'needs_to_manifest': 'see notes.md',
 'confirmed': {
   'repo_suite_with_change': suite,
   'demonstration': {'placed_at': dest, 'command': cmd, 'exit_with_change': int(rcw), 'exit_without_change': int(rcwo)},
 },
 'our_quick_checks_with_change_applied': checks,
}
json.dump(meta,open(f'/verif/seeded/{name}/meta.json','w'),indent=1)
PY
echo "stored in $S"
