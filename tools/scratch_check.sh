#!/bin/bash
# usage: tools/scratch_check.sh <patch|none> <ID>...   |   tools/scratch_check.sh --clean
# Like tools/mutant.sh but never touches /repo: the change is applied to a scratch worktree of
# /repo's HEAD and a copy of the harness (path dependencies rewritten) is built against it.
# The scratch worktree and build are kept between calls (incremental); --clean removes them.
P=${TCSS_SC_PREFIX:-tcss-sc}; WT=/tmp/$P-wt; HS=/tmp/$P-harness; TG=/tmp/$P-target
if [ "$1" = "--clean" ]; then git -C /repo worktree remove --force $WT 2>/dev/null; rm -rf $WT $HS $TG /tmp/$P-out; git -C /repo worktree prune; exit 0; fi
PATCH=$1; shift
[ -d $WT ] || git -C /repo worktree add --detach $WT HEAD >/dev/null || exit 2
( cd $WT && git checkout -q -- . && git clean -fdq && git checkout -q --detach $(git -C /repo rev-parse HEAD) ) || exit 2
PATCH_ABS=$(realpath "$PATCH" 2>/dev/null)
if [ "$PATCH" != "none" ]; then ( cd $WT && git apply "$PATCH_ABS" ) || { echo "patch does not apply"; exit 2; }; fi
if [ -z "$TCSS_SC_FREEZE" ] || [ ! -d $HS/src ]; then mkdir -p $HS/.cargo; rm -rf $HS/src; cp -r /verif/harness/src /verif/harness/Cargo.toml /verif/harness/Cargo.lock $HS/; fi
sed -i "s|/repo/|$WT/|g" $HS/Cargo.toml
printf '[net]\noffline = true\n[build]\ntarget-dir = "%s"\n' $TG > $HS/.cargo/config.toml
( cd $HS && cargo build --release --offline >/tmp/$P-build.log 2>&1 ) || { echo "MACHINERY: harness build failed"; tail -5 /tmp/$P-build.log; exit 2; }
for id in "$@"; do
  if [ "$id" = "C17" ] || [ "$id" = "C20" ] || [ "$id" = "C15" ] || [ "$id" = "C04" ] || [ "$id" = "C16" ] || [ "$id" = "C14" ]; then ( cd $WT && CARGO_TARGET_DIR=$TG/repo-bin cargo build --release --offline -p taskchampion-sync-server --bin taskchampion-sync-server >/tmp/$P-build.log 2>&1 ) || echo "server binary build failed"; fi
  out=$(TCSS_VERIF_DIR=/verif TCSS_OUT_DIR=/tmp/$P-out TCSS_SERVER_BIN=$TG/repo-bin/release/taskchampion-sync-server $TG/release/tcss-verif check $id ${TIER:-quick} 2>&1); rc=$?
  case $rc in
    0) echo "$id: MISSED";;
    1) echo "$id: DETECTED  $(echo "$out" | grep -m1 -A1 '^VIOLATION' | tail -1 | cut -c1-220)";;
    *) echo "$id: MACHINERY rc=$rc $(echo "$out" | tail -2 | tr '\n' ' ' | cut -c1-300)";;
  esac
done
