//! E-PAYLOAD — C06: payloads come back byte for byte (DESIGN.md 5/C06).
//!
//! Exhaustive product of a boundary-structured payload alphabet: length x content class x
//! chunking x route (version / snapshot) x backend x entry (library / HTTP in process).

use crate::http::{Body, HttpReq, HS_CT, SNAP_CT};
use crate::model::Config;
use crate::sut::{client_uuid, decode_http, hex, Req, Resp, Sut, SutSpec};
use serde_json::{json, Value};
use uuid::Uuid;

pub const CLASSES: &[&str] = &["zeros", "ff", "random", "digits", "utf8", "badutf8", "nul"];

pub const SPECIAL_TEXTS: &[&str] = &[
    "12345", "1e5", "0x10", " 7 ", "-0", "1.0", "NaN", "inf", "0", "007", "9223372036854775808", "1e400", "+1", ".5", "5.", "null", "NULL", "true", "''", "\"", "x'00'", "0.1e-2", "18446744073709551616", "1_000",
    "-9223372036854775809", " ", "\t1", "1\n",
];

pub fn gen(class: &str, len: usize, seed: u64) -> Vec<u8> {
    match class {
        "zeros" => vec![0u8; len],
        "ff" => vec![0xffu8; len],
        "random" => {
            let mut x = seed ^ (len as u64).wrapping_mul(0x9E3779B97F4A7C15) ^ 0xD1B54A32D192ED03;
            (0..len)
                .map(|_| {
                    x ^= x << 13;
                    x ^= x >> 7;
                    x ^= x << 17;
                    (x >> 24) as u8
                })
                .collect()
        }
        "digits" => (0..len).map(|i| b"1234567890"[i % 10]).collect(),
        "utf8" => {
            // 2-byte characters, padded with 'a' to the exact length
            let mut v = Vec::with_capacity(len);
            while v.len() + 2 <= len {
                v.extend_from_slice("é".as_bytes());
            }
            while v.len() < len {
                v.push(b'a');
            }
            v
        }
        "badutf8" => (0..len).map(|i| [0xc3u8, 0x28, 0xa0, 0xa1, 0xe2, 0x28, 0xf0, 0x80][i % 8]).collect(),
        "nul" => (0..len).map(|i| b"ab\0cd\0\0e"[i % 8]).collect(),
        _ => vec![b'?'; len],
    }
}

/// Payloads that look like an encoding somebody might sniff for: complete compressed streams,
/// streams followed by other bytes, truncated streams, bare magic numbers, armoured text.
pub const CODED: &[&str] = &[
    "zlib", "zlib-best", "zlib-of-nothing", "zlib+tail", "zlib-truncated", "two-zlib-streams", "gzip", "gzip+tail", "deflate-raw",
    "zstd-magic", "bz2-magic", "xz-magic", "lz4-magic", "sqlite-header", "base64", "hex", "json", "pem",
];

pub fn gen_coded(name: &str, seed: u64) -> Vec<u8> {
    use flate2::write::{DeflateEncoder, GzEncoder, ZlibEncoder};
    use flate2::Compression;
    use std::io::Write;
    let plain: Vec<u8> = format!("history segment {seed}: ").into_bytes().into_iter().chain(gen("digits", 400, seed)).chain(gen("random", 60, seed)).collect();
    let zlib = |level: Compression, data: &[u8]| -> Vec<u8> {
        let mut e = ZlibEncoder::new(Vec::new(), level);
        e.write_all(data).unwrap();
        e.finish().unwrap()
    };
    match name {
        "zlib" => zlib(Compression::default(), &plain),
        "zlib-best" => zlib(Compression::best(), &plain),
        "zlib-of-nothing" => zlib(Compression::default(), b""),
        "zlib+tail" => {
            let mut v = zlib(Compression::default(), &plain);
            v.extend_from_slice(b"...and more bytes after the stream");
            v
        }
        "zlib-truncated" => {
            let v = zlib(Compression::default(), &plain);
            v[..v.len() - 5].to_vec()
        }
        "two-zlib-streams" => {
            let mut v = zlib(Compression::default(), &plain);
            v.extend(zlib(Compression::fast(), b"second stream"));
            v
        }
        "gzip" | "gzip+tail" => {
            let mut e = GzEncoder::new(Vec::new(), Compression::default());
            e.write_all(&plain).unwrap();
            let mut v = e.finish().unwrap();
            if name == "gzip+tail" {
                v.extend_from_slice(b"tail");
            }
            v
        }
        "deflate-raw" => {
            let mut e = DeflateEncoder::new(Vec::new(), Compression::default());
            e.write_all(&plain).unwrap();
            e.finish().unwrap()
        }
        "zstd-magic" => [&[0x28u8, 0xb5, 0x2f, 0xfd][..], &plain[..40]].concat(),
        "bz2-magic" => [&b"BZh91AY&SY"[..], &plain[..40]].concat(),
        "xz-magic" => [&[0xfdu8, b'7', b'z', b'X', b'Z', 0x00][..], &plain[..40]].concat(),
        "lz4-magic" => [&[0x04u8, 0x22, 0x4d, 0x18][..], &plain[..40]].concat(),
        "sqlite-header" => [&b"SQLite format 3\0"[..], &plain[..84]].concat(),
        "base64" => b"aGlzdG9yeSBzZWdtZW50IGluIGJhc2U2NA==".to_vec(),
        "hex" => b"68697374 6f727920 7365676d 656e74".to_vec(),
        "json" => br#"{"version":"00000000-0000-0000-0000-000000000000","payload":null}"#.to_vec(),
        "pem" => b"-----BEGIN AGE ENCRYPTED FILE-----\nYWdlLWVuY3J5cHRpb24=\n-----END AGE ENCRYPTED FILE-----\n".to_vec(),
        _ => vec![b'?'; 8],
    }
}

/// The lengths of the alphabet.
pub fn lengths(quick: bool) -> Vec<usize> {
    let mut v: Vec<usize> = (1..=300).collect();
    // local-payload limits of both tables' rows sit a little below one 4096-byte page
    v.extend(3800..=4200);
    for k in 2..=5usize {
        for base in [k * 4092, k * 4096] {
            for d in 0..=120 {
                v.push(base + d - 60);
            }
        }
    }
    for base in [1usize << 14, 1 << 16] {
        for d in 0..=80 {
            v.push(base + d - 40);
        }
    }
    v.extend([(1 << 20) - 1, 1 << 20, (1 << 20) + 1]);
    if !quick {
        v.extend([(1 << 21) - 1, 1 << 21, (1 << 21) + 1, 1 << 24, (1 << 24) + 1]);
    }
    v.sort();
    v.dedup();
    v
}

/// All compositions of `n` (ordered ways of cutting a body of n bytes into non-empty chunks).
pub fn compositions(n: usize) -> Vec<Vec<usize>> {
    if n == 0 {
        return vec![vec![]];
    }
    let mut out = vec![];
    for mask in 0..(1u32 << (n - 1)) {
        let mut parts = vec![];
        let mut cur = 1;
        for i in 0..n - 1 {
            if mask & (1 << i) != 0 {
                parts.push(cur);
                cur = 1;
            } else {
                cur += 1;
            }
        }
        parts.push(cur);
        out.push(parts);
    }
    out
}

/// Chunkings for a longer body: every single split at the interesting points, and every
/// 3-way split over them.
pub fn split_points(len: usize) -> Vec<usize> {
    let mut p = vec![1, len / 2, len - 1];
    let mut b = 4096;
    while b < len {
        p.extend([b - 1, b, b + 1]);
        b += 4096;
        if p.len() > 40 {
            break;
        }
    }
    p.retain(|x| *x > 0 && *x < len);
    p.sort();
    p.dedup();
    p
}

fn apply_chunking(data: &[u8], parts: &[usize], with_empty: bool) -> Body {
    let mut out = vec![];
    let mut pos = 0;
    if with_empty {
        out.push(vec![]);
    }
    for p in parts {
        out.push(data[pos..pos + p].to_vec());
        pos += p;
        if with_empty {
            out.push(vec![]);
        }
    }
    assert_eq!(pos, data.len());
    Body::Chunks(out)
}

struct Target {
    sut: Sut,
    client: Uuid,
    latest: Uuid,
}

impl Target {
    fn new(spec: SutSpec, seed: u64) -> Target {
        let mut sut = Sut::new(spec, Config { days: 14, versions: 100 });
        let client = client_uuid(seed, 0);
        // library entry: create the client as the handler would
        if !spec.is_http() {
            let st = sut.storage().clone();
            let mut txn = st.txn(client).expect("txn");
            txn.new_client(Uuid::nil()).expect("new_client");
            txn.commit().expect("commit");
        }
        sut.chunks = 1;
        Target { sut, client, latest: Uuid::nil() }
    }

    /// Upload `data` as a version (optionally with an explicit HTTP chunking), read it back.
    fn version_roundtrip(&mut self, data: &[u8], body: Option<Body>) -> Result<(), String> {
        let parent = self.latest;
        let req = Req::AddVersion { c: self.client, parent, data: data.to_vec() };
        let resp = match body {
            Some(b) => {
                let hr = HttpReq {
                    method: "POST".into(),
                    uri: format!("/v1/client/add-version/{parent}"),
                    headers: vec![("X-Client-Id".into(), self.client.to_string().into_bytes()), ("Content-Type".into(), HS_CT.as_bytes().to_vec())],
                    body: b,
                };
                match self.sut.send_http(&hr) {
                    Ok(raw) => decode_http(&req, &raw),
                    Err(e) => Resp::Fail(e),
                }
            }
            None => self.sut.call(&req),
        };
        let id = match resp {
            Resp::AvOk { id, .. } => id,
            other => return Err(format!("upload of {} bytes answered {:?}", data.len(), other)),
        };
        self.latest = id;
        match self.sut.call(&Req::GetChild { c: self.client, parent }) {
            Resp::GcFound { id: i2, parent: p2, data: d2 } => {
                if i2 != id || p2 != parent {
                    return Err(format!("ids differ: uploaded as ({id}, parent {parent}), returned as ({i2}, parent {p2})"));
                }
                if d2 != data {
                    return Err(format!("bytes differ: uploaded {} returned {}", hex(data), hex(&d2)));
                }
                self.ranged_reads(&format!("/v1/client/get-child-version/{parent}"), data)
            }
            other => Err(format!("GetChildVersion after upload answered {:?}", other)),
        }
    }

    fn snapshot_roundtrip(&mut self, data: &[u8], body: Option<Body>) -> Result<(), String> {
        // a snapshot needs a version to attach to that does not already hold it: add one first
        let parent = self.latest;
        match self.sut.call(&Req::AddVersion { c: self.client, parent, data: b"v".to_vec() }) {
            Resp::AvOk { id, .. } => self.latest = id,
            other => return Err(format!("preparing a version answered {:?}", other)),
        }
        let v = self.latest;
        let req = Req::AddSnapshot { c: self.client, v, data: data.to_vec() };
        let resp = match body {
            Some(b) => {
                let hr = HttpReq {
                    method: "POST".into(),
                    uri: format!("/v1/client/add-snapshot/{v}"),
                    headers: vec![("X-Client-Id".into(), self.client.to_string().into_bytes()), ("Content-Type".into(), SNAP_CT.as_bytes().to_vec())],
                    body: b,
                };
                match self.sut.send_http(&hr) {
                    Ok(raw) => decode_http(&req, &raw),
                    Err(e) => Resp::Fail(e),
                }
            }
            None => self.sut.call(&req),
        };
        if resp != Resp::SnapOk {
            return Err(format!("snapshot upload of {} bytes answered {:?}", data.len(), resp));
        }
        match self.sut.call(&Req::GetSnapshot { c: self.client }) {
            Resp::GsFound { id, data: d2 } => {
                if id != v {
                    return Err(format!("snapshot stored for {v}, returned for {id}"));
                }
                if d2 != data {
                    return Err(format!("snapshot bytes differ: uploaded {} returned {}", hex(data), hex(&d2)));
                }
                self.ranged_reads("/v1/client/snapshot", data)
            }
            other => Err(format!("GetSnapshot after upload answered {:?}", other)),
        }
    }
}

impl Target {
    /// Reading in parts: the same resource asked for with `Range` headers (a client resuming a
    /// download). A server may ignore the header (200, whole body) or honour it (206 with a
    /// `Content-Range`); either way the bytes it returns must be the bytes that were uploaded,
    /// at the positions it says they are from, and the parts must add up to the whole.
    fn ranged_reads(&mut self, uri: &str, data: &[u8]) -> Result<(), String> {
        if !self.sut.spec.is_http() || data.len() < 2 {
            return Ok(());
        }
        let k = data.len() / 2 - 1;
        let mut assembled: Vec<u8> = vec![];
        let mut whole = false;
        for (range, first, last) in [(format!("bytes=0-{k}"), 0usize, k), (format!("bytes={}-", k + 1), k + 1, data.len() - 1)] {
            let hr = HttpReq {
                method: "GET".into(),
                uri: uri.to_string(),
                headers: vec![("X-Client-Id".into(), self.client.to_string().into_bytes()), ("Range".into(), range.clone().into_bytes())],
                body: Body::Empty,
            };
            let raw = self.sut.send_http(&hr).map_err(|e| format!("GET {uri} with Range: {range}: {e}"))?;
            match raw.status {
                200 => {
                    if raw.body != data {
                        return Err(format!("GET with Range: {range} answered 200 with other bytes: uploaded {} returned {}", hex(data), hex(&raw.body)));
                    }
                    whole = true;
                }
                206 => {
                    let cr = raw.header_str("content-range").unwrap_or_default();
                    let parsed = (|| -> Option<(usize, usize, usize)> {
                        let rest = cr.trim().strip_prefix("bytes ")?;
                        let (r, total) = rest.split_once('/')?;
                        let (a, b) = r.split_once('-')?;
                        Some((a.trim().parse().ok()?, b.trim().parse().ok()?, total.trim().parse().ok()?))
                    })();
                    let Some((a, b, total)) = parsed else {
                        return Err(format!("GET with Range: {range} answered 206 with Content-Range {cr:?}"));
                    };
                    if total != data.len() || a > b || b >= data.len() {
                        return Err(format!("GET with Range: {range} answered 206 Content-Range {cr:?} for a resource of {} bytes", data.len()));
                    }
                    if raw.body != data[a..=b] {
                        return Err(format!("bytes differ: GET with Range: {range} answered 206 {cr:?} with {} where the upload has {} at those positions", hex(&raw.body), hex(&data[a..=b])));
                    }
                    if a != first || b != last {
                        return Err(format!("GET with Range: {range} answered 206 for {cr:?}, another range than asked for"));
                    }
                    assembled.extend_from_slice(&raw.body);
                }
                st if (400..500).contains(&st) => return Ok(()), // refusing ranges altogether returns no bytes
                st => return Err(format!("GET with Range: {range} answered {st}")),
            }
        }
        if !whole && assembled != data {
            return Err(format!("bytes differ: the two halves read with Range add up to {} but {} was uploaded", hex(&assembled), hex(data)));
        }
        Ok(())
    }
}

impl Target {
    /// Requests that must leave no trace: an upload whose transfer breaks off half way, and
    /// uploads refused for their content type, on both upload routes.
    fn disturb(&mut self, n: usize) {
        if !self.sut.spec.is_http() {
            return;
        }
        let junk: Vec<u8> = (0..(17 + n % 5000)).map(|i| (i * 3 + n) as u8 | 0x80).collect();
        for (route, ct) in [("add-version", HS_CT), ("add-snapshot", SNAP_CT)] {
            let uri = format!("/v1/client/{route}/{}", self.latest);
            let h = |ct: &str| vec![("X-Client-Id".to_string(), self.client.to_string().into_bytes()), ("Content-Type".to_string(), ct.as_bytes().to_vec())];
            let _ = self.sut.send_http(&HttpReq { method: "POST".into(), uri: uri.clone(), headers: h(ct), body: Body::ThenError(vec![junk.clone(), junk[..7].to_vec()]) });
            let _ = self.sut.send_http(&HttpReq { method: "POST".into(), uri, headers: h("text/plain"), body: Body::Chunks(vec![junk.clone()]) });
        }
    }
}

/// Uploads whose transfer stalls between two chunks for longer than any server-side timer: the
/// server may refuse such an upload, but what it acknowledges must be the whole body.
fn stalled(spec: SutSpec, seed: u64) -> (u64, Vec<Value>) {
    let mut n = 0u64;
    let mut findings = vec![];
    let mut t = Target::new(spec, seed);
    for route in ["version", "snapshot"] {
        for nchunks in [2usize, 3, 5] {
            for stall_before in 0..=nchunks {
                for secs in [1u64, 4, 6, 30, 61, 3600, 86_400] {
                    n += 1;
                    let chunks: Vec<Vec<u8>> = (0..nchunks).map(|k| gen("random", 1000 + 777 * k, seed ^ (n * 31 + k as u64))).collect();
                    let data: Vec<u8> = chunks.concat();
                    let label = format!("{} chunks of ~1-4 KB, {secs} s stall before chunk {stall_before}", nchunks);
                    if route == "snapshot" {
                        match t.sut.call(&Req::AddVersion { c: t.client, parent: t.latest, data: b"v".to_vec() }) {
                            Resp::AvOk { id, .. } => t.latest = id,
                            other => {
                                findings.push(json!({"class": "stalled|setup", "payload": label, "chunking": "stall", "msg": format!("{:?}", other)}));
                                continue;
                            }
                        }
                    }
                    let (uri, ct) = if route == "version" { (format!("/v1/client/add-version/{}", t.latest), HS_CT) } else { (format!("/v1/client/add-snapshot/{}", t.latest), SNAP_CT) };
                    let hr = HttpReq {
                        method: "POST".into(),
                        uri,
                        headers: vec![("X-Client-Id".into(), t.client.to_string().into_bytes()), ("Content-Type".into(), ct.as_bytes().to_vec())],
                        body: Body::Stall { chunks, stall_before, secs },
                    };
                    let raw = match t.sut.send_http(&hr) {
                        Ok(r) => r,
                        Err(e) => {
                            findings.push(json!({"class": "stalled|not-served", "payload": label, "chunking": "stall", "msg": e}));
                            t = Target::new(spec, seed);
                            continue;
                        }
                    };
                    let parent = t.latest;
                    if raw.status == 200 {
                        // acknowledged: must be the whole body
                        if route == "version" {
                            match t.sut.call(&Req::GetChild { c: t.client, parent }) {
                                Resp::GcFound { id, data: d2, .. } => {
                                    if d2 != data {
                                        findings.push(json!({"class": "stalled|bytes-differ", "payload": label, "chunking": "stall", "msg": format!("upload acknowledged with 200 but {} of {} bytes were stored ({label})", d2.len(), data.len())}));
                                    }
                                    t.latest = id;
                                }
                                other => findings.push(json!({"class": "stalled|not-served", "payload": label, "chunking": "stall", "msg": format!("read-back answered {:?}", other)})),
                            }
                        } else {
                            match t.sut.call(&Req::GetSnapshot { c: t.client }) {
                                Resp::GsFound { data: d2, .. } if d2 == data => {}
                                Resp::GsFound { data: d2, .. } => findings.push(json!({"class": "stalled|bytes-differ", "payload": label, "chunking": "stall", "msg": format!("snapshot upload acknowledged with 200 but {} of {} bytes were stored ({label})", d2.len(), data.len())})),
                                other => findings.push(json!({"class": "stalled|not-served", "payload": label, "chunking": "stall", "msg": format!("snapshot read-back answered {:?}", other)})),
                            }
                        }
                    } else if route == "version" {
                        // refused (e.g. a read timeout): then nothing may have been stored
                        match t.sut.call(&Req::GetChild { c: t.client, parent }) {
                            Resp::GcNotFound => {}
                            other => findings.push(json!({"class": "stalled|refused-but-stored", "payload": label, "chunking": "stall", "msg": format!("upload answered {} yet GetChildVersion(parent) answers {:?}", raw.status, other)})),
                        }
                    }
                    if findings.len() > 10 {
                        return (n, findings);
                    }
                }
            }
        }
    }
    (n, findings)
}

/// All orders in which two streams with `a` and `b` items can deliver them.
pub fn interleavings(a: usize, b: usize) -> Vec<Vec<usize>> {
    fn rec(a: usize, b: usize, cur: &mut Vec<usize>, out: &mut Vec<Vec<usize>>) {
        if a == 0 && b == 0 {
            out.push(cur.clone());
            return;
        }
        if a > 0 {
            cur.push(0);
            rec(a - 1, b, cur, out);
            cur.pop();
        }
        if b > 0 {
            cur.push(1);
            rec(a, b - 1, cur, out);
            cur.pop();
        }
    }
    let mut out = vec![];
    rec(a, b, &mut vec![], &mut out);
    out
}

/// Two uploads in flight on one worker, chunk deliveries interleaved in every possible order.
/// `kinds`: (route of upload A, route of upload B), each "version" or "snapshot"; A belongs to
/// client 0, B to client 1.
fn interleaved(spec: SutSpec, seed: u64, kinds: (&str, &str), max_chunks: usize) -> (u64, Vec<Value>) {
    use crate::http::Gate;
    let mut n = 0u64;
    let mut findings = vec![];
    let ca = client_uuid(seed, 0);
    let cb = client_uuid(seed, 1);
    let mut sut = Sut::new(spec, Config { days: 14, versions: 100 });
    // both clients start with one version so that snapshots have something to attach to
    let mut latest = [Uuid::nil(), Uuid::nil()];
    for (i, c) in [ca, cb].iter().enumerate() {
        match sut.call(&Req::AddVersion { c: *c, parent: Uuid::nil(), data: b"first".to_vec() }) {
            Resp::AvOk { id, .. } => latest[i] = id,
            other => return (0, vec![json!({"class": "interleaved|setup", "payload": "-", "chunking": "-", "msg": format!("setup failed: {:?}", other)})]),
        }
    }
    let mut serial = 0usize;
    for ma in 1..=max_chunks {
        for mb in 1..=max_chunks {
            for order in interleavings(ma + 1, mb + 1) {
                serial += 1;
                n += 1;
                let mk = |who: usize, m: usize| -> Vec<Vec<u8>> { (0..m).map(|k| format!("<{}{}:{}:{}>", if who == 0 { 'A' } else { 'B' }, serial, k, "x".repeat(k * 3 + who)).into_bytes()).collect() };
                let (cha, chb) = (mk(0, ma), mk(1, mb));
                let (da, db): (Vec<u8>, Vec<u8>) = (cha.concat(), chb.concat());
                let gate = Gate::new(order.clone());
                let req = |who: usize, kind: &str, chunks: &Vec<Vec<u8>>| -> HttpReq {
                    let c = if who == 0 { ca } else { cb };
                    let (route, ct) = if kind == "version" { ("add-version", HS_CT) } else { ("add-snapshot", SNAP_CT) };
                    HttpReq {
                        method: "POST".into(),
                        uri: format!("/v1/client/{route}/{}", latest[who]),
                        headers: vec![("X-Client-Id".into(), c.to_string().into_bytes()), ("Content-Type".into(), ct.as_bytes().to_vec())],
                        body: Body::Gated { chunks: chunks.clone(), id: who, gate: gate.clone() },
                    }
                };
                let (ra, rb) = sut.send_http_pair(&req(0, kinds.0, &cha), &req(1, kinds.1, &chb));
                let label = format!("{}||{} chunks {}x{} order {:?}", kinds.0, kinds.1, ma, mb, order);
                for (who, (r, kind, data)) in [(ra, kinds.0, &da), (rb, kinds.1, &db)].into_iter().enumerate() {
                    let c = if who == 0 { ca } else { cb };
                    let raw = match r {
                        Ok(raw) => raw,
                        Err(e) => {
                            findings.push(json!({"class": "interleaved|not-served", "payload": label, "chunking": "gated", "msg": e}));
                            continue;
                        }
                    };
                    if raw.status != 200 {
                        findings.push(json!({"class": "interleaved|not-served", "payload": label, "chunking": "gated", "msg": format!("upload {} answered {}", who, raw.status)}));
                        continue;
                    }
                    if kind == "version" {
                        let parent = latest[who];
                        match sut.call(&Req::GetChild { c, parent }) {
                            Resp::GcFound { id, data: d2, .. } => {
                                if &d2 != data {
                                    findings.push(json!({"class": "interleaved|bytes-differ", "payload": label, "chunking": "gated", "msg": format!("two uploads in flight on one worker: client {} uploaded {:?} and reads back {:?}", who, String::from_utf8_lossy(data), String::from_utf8_lossy(&d2))}));
                                }
                                latest[who] = id;
                            }
                            other => findings.push(json!({"class": "interleaved|not-served", "payload": label, "chunking": "gated", "msg": format!("read-back answered {:?}", other)})),
                        }
                    } else {
                        match sut.call(&Req::GetSnapshot { c }) {
                            Resp::GsFound { data: d2, .. } => {
                                if &d2 != data {
                                    findings.push(json!({"class": "interleaved|bytes-differ", "payload": label, "chunking": "gated", "msg": format!("two uploads in flight on one worker: client {} uploaded snapshot {:?} and reads back {:?}", who, String::from_utf8_lossy(data), String::from_utf8_lossy(&d2))}));
                                }
                            }
                            other => findings.push(json!({"class": "interleaved|not-served", "payload": label, "chunking": "gated", "msg": format!("snapshot read-back answered {:?}", other)})),
                        }
                        // a further snapshot needs a newer version
                        if let Resp::AvOk { id, .. } = sut.call(&Req::AddVersion { c, parent: latest[who], data: b"next".to_vec() }) {
                            latest[who] = id;
                        }
                    }
                }
                if findings.len() > 20 {
                    return (n, findings);
                }
            }
        }
    }
    (n, findings)
}

/// Several clients whose versions hang on the *same* parent id (every client's first version
/// hangs on nil; clients continuing a history from elsewhere can share any parent) and whose
/// snapshots are for the same version id: each reads back its own bytes, in every order of
/// reading, the second time as well as the first.
fn shared_parent(spec: SutSpec, seed: u64) -> (u64, Vec<Value>) {
    let mut n = 0u64;
    let mut findings = vec![];
    let sizes = [1usize, 20, 300, 4097, 65_536, 65_537, 300_000];
    for (round, parent) in [Uuid::nil(), crate::sut::det_uuid(seed, 61, 1)].into_iter().enumerate() {
        for &sz in &sizes {
            let mut sut = Sut::new(spec, Config { days: 14, versions: 100 });
            let clients: Vec<Uuid> = (0..3).map(|c| client_uuid(seed, c)).collect();
            let payloads: Vec<Vec<u8>> = (0..3).map(|c| gen("random", sz + c, seed ^ (c as u64 + 1) * 7919)).collect();
            let mut ids = vec![];
            for (c, cu) in clients.iter().enumerate() {
                if !spec.is_http() {
                    let st = sut.storage().clone();
                    if let Ok(mut txn) = st.txn(*cu) {
                        let _ = txn.new_client(Uuid::nil());
                        let _ = txn.commit();
                    };
                }
                match sut.call(&Req::AddVersion { c: *cu, parent, data: payloads[c].clone() }) {
                    Resp::AvOk { id, .. } => ids.push(id),
                    other => {
                        findings.push(json!({"class": "shared-parent|not-served", "payload": format!("random:{}", sz + c), "chunking": "-", "msg": format!("client {c}: first version on parent {parent} answered {:?}", other)}));
                        ids.push(Uuid::nil());
                    }
                }
                // a snapshot for the shared parent id itself (accepted or not is the server's
                // business; what is returned afterwards must be this client's or nothing)
                let _ = sut.call(&Req::AddSnapshot { c: *cu, v: parent, data: format!("snapshot of client {c}, round {round}, size {sz}").into_bytes() });
            }
            for order in [[0usize, 1, 2], [2, 1, 0], [1, 0, 2], [0, 1, 2]] {
                for c in order {
                    n += 1;
                    match sut.call(&Req::GetChild { c: clients[c], parent }) {
                        Resp::GcFound { id, data, .. } => {
                            if id != ids[c] || data != payloads[c] {
                                findings.push(json!({"class": "shared-parent|bytes-differ", "payload": format!("random:{}", sz + c), "chunking": "-", "msg": format!("three clients with a version on the same parent {parent}: client {c} uploaded {} as {} and reads back {} as {id}", hex(&payloads[c]), ids[c], hex(&data))}));
                            }
                        }
                        other => findings.push(json!({"class": "shared-parent|not-served", "payload": format!("random:{}", sz + c), "chunking": "-", "msg": format!("client {c}: GetChildVersion({parent}) answered {:?}", other)})),
                    }
                    if let Resp::GsFound { data, .. } = sut.call(&Req::GetSnapshot { c: clients[c] }) {
                        let want = format!("snapshot of client {c}, round {round}, size {sz}").into_bytes();
                        if data != want {
                            findings.push(json!({"class": "shared-parent|snapshot-bytes-differ", "payload": format!("size {sz}"), "chunking": "-", "msg": format!("client {c} reads back a snapshot of {} it did not upload", hex(&data))}));
                        }
                    }
                }
            }
            if findings.len() > 10 {
                return (n, findings);
            }
        }
    }
    (n, findings)
}

/// One task: {spec, route, items:[{class,len} | {text} | {byte} | {bytes2}] , chunking:bool}
pub fn worker_main() {
    crate::pool::serve(|pv| {
        let seed = pv["seed"].as_u64().unwrap_or(1);
        move |task: &Value| -> Value {
            let spec = crate::sut::spec_from_name(task["spec"].as_str().unwrap()).expect("spec");
            let route = task["route"].as_str().unwrap().to_string();
            let chunked = task["chunking"].as_bool().unwrap_or(false);
            if task["stalled"].as_bool().unwrap_or(false) {
                let r = std::panic::catch_unwind(std::panic::AssertUnwindSafe(|| stalled(spec, seed)));
                return match r {
                    Ok((n, f)) => json!({"roundtrips": n, "chunkings": 0, "stalled": n, "findings": f}),
                    Err(e) => json!({"error": format!("payload worker panicked: {}", crate::sut::panic_msg(e))}),
                };
            }
            if task["shared_parent"].as_bool().unwrap_or(false) {
                let r = std::panic::catch_unwind(std::panic::AssertUnwindSafe(|| shared_parent(spec, seed)));
                return match r {
                    Ok((n, f)) => json!({"roundtrips": n, "chunkings": 0, "interleavings": 0, "findings": f}),
                    Err(e) => json!({"error": format!("payload worker panicked: {}", crate::sut::panic_msg(e))}),
                };
            }
            if let Some(k) = task["interleaved"].as_array() {
                let ka = k[0].as_str().unwrap_or("version").to_string();
                let kb = k[1].as_str().unwrap_or("version").to_string();
                let mc = task["max_chunks"].as_u64().unwrap_or(3) as usize;
                let r = std::panic::catch_unwind(std::panic::AssertUnwindSafe(|| interleaved(spec, seed, (&ka, &kb), mc)));
                return match r {
                    Ok((n, f)) => json!({"roundtrips": n, "chunkings": 0, "interleavings": n, "findings": f}),
                    Err(e) => json!({"error": format!("payload worker panicked: {}", crate::sut::panic_msg(e))}),
                };
            }
            let r = std::panic::catch_unwind(std::panic::AssertUnwindSafe(|| {
                let mut t = Target::new(spec, seed);
                let mut n = 0u64;
                let mut findings = vec![];
                let mut chunkings = 0u64;
                for it in task["items"].as_array().cloned().unwrap_or_default() {
                    let (data, label): (Vec<u8>, String) = if let Some(c) = it["class"].as_str() {
                        let len = it["len"].as_u64().unwrap() as usize;
                        (gen(c, len, seed), format!("{c}:{len}"))
                    } else if let Some(tx) = it["text"].as_str() {
                        (tx.as_bytes().to_vec(), format!("text:{tx:?}"))
                    } else if let Some(cn) = it["coded"].as_str() {
                        (gen_coded(cn, seed), format!("coded:{cn}"))
                    } else if let Some(b) = it["byte"].as_u64() {
                        (vec![b as u8], format!("byte:{b:#04x}"))
                    } else {
                        let b = it["bytes2"].as_u64().unwrap();
                        (vec![(b >> 8) as u8, b as u8], format!("bytes2:{b:#06x}"))
                    };
                    let mut bodies: Vec<(Option<Body>, String)> = vec![(None, "default".into())];
                    if chunked && spec.is_http() {
                        bodies.clear();
                        if data.len() <= 6 {
                            for comp in compositions(data.len()) {
                                bodies.push((Some(apply_chunking(&data, &comp, false)), format!("chunks{comp:?}")));
                                bodies.push((Some(apply_chunking(&data, &comp, true)), format!("chunks{comp:?}+empty")));
                            }
                        } else {
                            let pts = split_points(data.len());
                            for a in &pts {
                                bodies.push((Some(apply_chunking(&data, &[*a, data.len() - a], false)), format!("split@{a}")));
                            }
                            for (i, a) in pts.iter().enumerate() {
                                for b in &pts[i + 1..] {
                                    bodies.push((Some(apply_chunking(&data, &[*a, b - a, data.len() - b], false)), format!("split@{a},{b}")));
                                }
                            }
                            bodies.push((Some(apply_chunking(&data, &[1, data.len() - 1], true)), "split@1+empty".into()));
                        }
                    }
                    for (body, blabel) in bodies {
                        n += 1;
                        // every few uploads: broken-off and refused uploads in between must leave no trace
                        if chunked || n % 7 == 0 {
                            t.disturb(n as usize);
                        }
                        if body.is_some() {
                            chunkings += 1;
                        }
                        let r = if route == "version" { t.version_roundtrip(&data, body) } else { t.snapshot_roundtrip(&data, body) };
                        if let Err(e) = r {
                            let kind = if e.contains("bytes differ") { "bytes-differ" } else if e.contains("ids differ") || e.contains("returned for") { "ids-differ" } else { "not-served" };
                            findings.push(json!({"class": format!("{}|{}", label.split(':').next().unwrap_or(""), kind), "payload": label, "chunking": blabel, "msg": e}));
                            // start from a fresh server so one failure does not cascade
                            t = Target::new(spec, seed);
                        }
                    }
                }
                json!({"roundtrips": n, "chunkings": chunkings, "findings": findings})
            }));
            match r {
                Ok(v) => v,
                Err(e) => json!({"error": format!("payload worker panicked: {}", crate::sut::panic_msg(e))}),
            }
        }
    });
}
