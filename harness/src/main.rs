#![allow(dead_code)]
mod alphabet;
mod checks;
mod ebin;
mod ecorpus;
mod ecrash;
mod efault;
mod ehttp;
mod epayload;
mod esched;
mod eseq;
mod esize;
mod esweep;
mod http;
mod model;
mod pool;
mod report;
mod sched;
mod sut;
mod vfs;
mod wrap;

/// Every log statement of the subject is enabled and its arguments are formatted (and thrown
/// away): what a statement does when somebody turns logging on - README recommends
/// RUST_LOG=info - is part of the behaviour under test. A panic while formatting surfaces in the
/// request that logged.
struct EvalLogger;
impl log::Log for EvalLogger {
    fn enabled(&self, _: &log::Metadata) -> bool {
        true
    }
    fn log(&self, record: &log::Record) {
        let _ = std::fmt::format(*record.args());
    }
    fn flush(&self) {}
}
static EVAL_LOGGER: EvalLogger = EvalLogger;

fn main() {
    let args: Vec<String> = std::env::args().collect();
    if std::env::var("TCSS_NO_LOGGER").is_err() {
        let _ = log::set_logger(&EVAL_LOGGER);
        log::set_max_level(log::LevelFilter::Trace);
    }
    sut::cleanup_stale_scratch();
    // keep panics of the subject (caught by catch_unwind) from flooding stderr
    if std::env::var("TCSS_VERBOSE_PANICS").is_err() {
        std::panic::set_hook(Box::new(|_| {}));
    }
    let code = checks::main(&args[1..]);
    sut::cleanup_scratch_root();
    std::process::exit(code);
}
