#![allow(dead_code)]
mod alphabet;
mod checks;
mod ebin;
mod ecorpus;
mod ecrash;
mod efault;
mod ehttp;
mod epayload;
mod esched;
mod eseq;
mod esize;
mod esweep;
mod http;
mod model;
mod pool;
mod report;
mod sched;
mod sut;
mod vfs;
mod wrap;

fn main() {
    let args: Vec<String> = std::env::args().collect();
    sut::cleanup_stale_scratch();
    // keep panics of the subject (caught by catch_unwind) from flooding stderr
    if std::env::var("TCSS_VERBOSE_PANICS").is_err() {
        std::panic::set_hook(Box::new(|_| {}));
    }
    let code = checks::main(&args[1..]);
    sut::cleanup_scratch_root();
    std::process::exit(code);
}
