//! E-SIZE — one payload of every size of a ladder, at every place a payload can go, in a short
//! history that goes on afterwards (DESIGN.md 4.6). The product implementation x size x place
//! is enumerated completely; every response is compared with the reference model, the chain is
//! walked from the nil base at the end, the database is reopened and walked again, and the
//! stored content is compared with the model.
//!
//! The breadth-first explorer keeps payloads small (it restores and dumps every state many
//! times). Size thresholds hidden in a backend, a handler or a streaming path - "segments above
//! N bytes take the other branch" - are crossed here instead: the ladder holds 2^k-1, 2^k, 2^k+1
//! up to the servers' 100 MiB limit, the limit itself and its neighbours.

use crate::alphabet::HUGE_BYTES;
use crate::model::{Cid, Config, MResp, Model, Sid, NIL};
use crate::sut::{dump_matches, resp_matches, spec_from_name, SResp, SymOp, SymSut};
use serde_json::{json, Value};

pub const PLACES: [&str; 4] = ["first-version-of-new-client", "version-on-chain", "snapshot", "version-and-snapshot"];

pub fn ladder(quick: bool) -> Vec<usize> {
    let mut v = vec![];
    if quick {
        // one size just above each of a few spread-out powers of two, and the limit
        v.extend([(1 << 16) + 1, (1 << 20) + 1, (1 << 24) + 1, HUGE_BYTES]);
    } else {
        for k in 10..=26 {
            let p = 1usize << k;
            v.extend([p - 1, p, p + 1]);
        }
        v.extend([3 * (1 << 24) + 1, HUGE_BYTES - 1, HUGE_BYTES]);
    }
    v.retain(|&s| s <= HUGE_BYTES);
    v.sort();
    v.dedup();
    v
}

/// Deterministic bytes of length `n`, different for different `tag`s, with no period that a
/// block-wise copy could hide behind.
pub fn sized_bytes(tag: u32, n: usize) -> Vec<u8> {
    let mut v = Vec::with_capacity(n + 4);
    let mut x: u32 = 0x9E3779B9 ^ tag.wrapping_mul(2654435761) ^ (n as u32);
    while v.len() < n {
        x ^= x << 13;
        x ^= x >> 17;
        x ^= x << 5;
        v.extend_from_slice(&x.to_le_bytes());
    }
    v.truncate(n);
    v
}

struct Run {
    sut: SymSut,
    model: Model,
    http: bool,
    findings: Vec<Value>,
    steps: Vec<String>,
    n_steps: u64,
    failures: u64,
    size: usize,
    place: &'static str,
    /// long-history runs: only the last steps are quoted in messages
    long: bool,
}

fn tags_for(op: &SymOp, data_only: bool, http: bool) -> Vec<&'static str> {
    let mut t: Vec<&'static str> = match op {
        SymOp::AddVersion { .. } => vec!["C02", "C01"],
        SymOp::GetChild { .. } => {
            if data_only {
                vec!["C06", "C07"]
            } else {
                vec!["C08", "C01", "C07"]
            }
        }
        SymOp::AddSnapshot { .. } => vec!["C10"],
        SymOp::GetSnapshot { .. } => {
            if data_only {
                vec!["C06", "C11"]
            } else {
                vec!["C11"]
            }
        }
        _ => vec![],
    };
    if http {
        t.push("C14");
    }
    t.push("C13");
    t
}

impl Run {
    fn find(&mut self, tags: Vec<&'static str>, class: &str, msg: String) {
        if self.long && self.findings.len() >= 12 {
            return; // one long history: the first few findings tell the story
        }
        let (hist, what) = if self.long {
            let k = self.steps.len().saturating_sub(8);
            (format!("… {} earlier requests … ; {}", k, self.steps[k..].join(" ; ")), format!("history of {} versions", self.size))
        } else {
            (self.steps.join(" ; "), format!("payload of {} bytes as {}", self.size, self.place))
        };
        self.findings.push(json!({
            "tags": tags,
            "class": class,
            "impl": self.sut.name(),
            "size": self.size,
            "place": self.place,
            "msg": format!("[{}] {}: {}\n  history: {}", self.sut.name(), what, msg, hist),
        }));
    }

    /// One request: the model's answer is the expectation. A failure answer (5xx / Err / panic)
    /// to an upload is itself reported (an upload within the limit must be accepted) and the
    /// model is left as it was: the rest of the script then checks that nothing stuck.
    fn step(&mut self, op: SymOp) -> SResp {
        let new_sid = self.model.next_sid;
        self.steps.push(op.describe());
        self.n_steps += 1;
        // library entries: an unknown client is first created through the storage API, as the
        // HTTP handler would (the model has HTTP semantics)
        if let SymOp::AddVersion { c, .. } = &op {
            if !self.http && self.model.client(*c).is_none() {
                if let Err(e) = crate::eseq::create_client_via_storage(&mut self.sut, *c) {
                    self.find(vec!["C13"], "client-creation", format!("creating the client through the storage API failed: {e}"));
                }
            }
        }
        let got = self.sut.apply(&op, new_sid);
        if got.is_failure() {
            // the model is left as it was: the rest of the script checks that nothing stuck
            self.failures += 1;
            let mut tags = vec!["C15", "C13", "C06"];
            if self.http {
                tags.push("C14");
            }
            // an upload that meets every condition of acceptance and is not accepted
            match &op {
                SymOp::AddVersion { .. } => tags.push("C02"),
                SymOp::AddSnapshot { .. } => tags.extend(["C10", "C11"]),
                _ => {}
            }
            self.find(tags, &format!("failure|{}", op_kind(&op)), format!("{} was answered with a failure: {}", op.describe(), brief(&got)));
            return got;
        }
        let mut undo: Option<(Cid, bool)> = None;
        let expect: MResp = match &op {
            SymOp::AddVersion { c, parent, data } => {
                let existed = self.model.client(*c).is_some();
                let r = self.model.add_version(*c, *parent, data, true);
                if matches!(r, MResp::AvOk { .. }) {
                    undo = Some((*c, existed));
                }
                r
            }
            SymOp::GetChild { c, parent } => self.model.get_child(*c, *parent),
            SymOp::AddSnapshot { c, v, data } => match self.model.snapshot_decision(*c, *v) {
                None => MResp::NoSuchClient,
                Some(d) => {
                    let replace = matches!(d, crate::model::SnapDecision::Replace);
                    self.model.add_snapshot_apply(*c, *v, data, replace);
                    MResp::SnapOk
                }
            },
            SymOp::GetSnapshot { c } => self.model.get_snapshot(*c),
            _ => unreachable!(),
        };
        if let Err(e) = resp_matches(&expect, &got, self.http) {
            let data_only = match (&expect, &got) {
                (MResp::GcFound { id, parent, .. }, SResp::GcFound { id: i, parent: p, .. }) => id == i && parent == p,
                (MResp::GsFound { id, .. }, SResp::GsFound { id: i, .. }) => id == i,
                _ => false,
            };
            // an upload the model accepted but the implementation refused was not stored
            if let (Some((c, existed)), false) = (undo, matches!(got, SResp::AvOk { .. })) {
                self.model.undo_last_version(c, existed);
            }
            let urgency_only = matches!((&expect, &got), (MResp::AvOk { id, .. }, SResp::AvOk { id: i, fresh: true, .. }) if id == i);
            if urgency_only {
                let mut tags = vec!["C12", "C13"];
                if self.http {
                    tags.push("C14");
                }
                self.find(tags, "add-version|urgency", format!("{}: {}", op.describe(), short(&e)));
                return got;
            }
            let msg = if data_only { format!("{}: ids right, bytes differ ({})", op.describe(), short(&e)) } else { format!("{}: {}", op.describe(), short(&e)) };
            self.find(tags_for(&op, data_only, self.http), &format!("{}|{}", op_kind(&op), if data_only { "bytes" } else { "answer" }), msg);
        }
        got
    }

    /// Walk from the nil base; the sequence of (id, parent, bytes) must be the accepted chain.
    fn walk(&mut self, c: Cid, label: &str) {
        let chain: Vec<(Sid, Sid)> = self.model.client(c).map(|cl| cl.chain.iter().map(|v| (v.id, v.parent)).collect()).unwrap_or_default();
        let before = self.findings.len();
        let mut p = chain.first().map(|x| x.1).unwrap_or(NIL);
        for (id, _) in &chain {
            let r = self.step(SymOp::GetChild { c, parent: p });
            match r {
                SResp::GcFound { id: i, .. } if i == *id => p = i,
                _ => break,
            }
        }
        if self.findings.len() == before {
            self.step(SymOp::GetChild { c, parent: p });
        }
        if self.findings.len() > before {
            // the walk is C01's own clause
            let msg = format!("walking client {}'s chain from its base ({label}) does not yield the {} accepted versions in order", (b'A' + c) as char, chain.len());
            self.find(vec!["C01", "C07", "C13"], "walk", msg);
        }
    }

    fn compare_store(&mut self, label: &str) {
        let d = self.sut.dump_concrete();
        let (sd, anomalies) = self.sut.symbolize_dump(&d);
        if let Err(e) = dump_matches(&self.model, &sd, &anomalies) {
            self.find(vec!["C13", "C01", "C07", "C18", "C06"], "store", format!("stored content ({label}) differs from what was acknowledged: {}", short(&e)));
        }
    }
}

fn op_kind(op: &SymOp) -> &'static str {
    match op {
        SymOp::AddVersion { .. } => "add-version",
        SymOp::GetChild { .. } => "get-child",
        SymOp::AddSnapshot { .. } => "add-snapshot",
        SymOp::GetSnapshot { .. } => "get-snapshot",
        _ => "env",
    }
}

fn brief(r: &SResp) -> String {
    short(&format!("{r:?}"))
}

fn short(s: &str) -> String {
    if s.len() > 600 {
        let mut e = 600;
        while !s.is_char_boundary(e) {
            e -= 1;
        }
        format!("{}…", &s[..e])
    } else {
        s.to_string()
    }
}

/// The script for one (implementation, size, place).
pub fn run_one(spec_name: &str, size: usize, place_ix: usize, seed: u64) -> Value {
    let spec = spec_from_name(spec_name).expect("spec");
    let place = PLACES[place_ix];
    let cfg = Config { days: 2, versions: 2 };
    let mut r = Run {
        sut: SymSut::new(spec, cfg, seed, 2),
        model: Model::new(cfg),
        http: spec.is_http(),
        findings: vec![],
        steps: vec![],
        n_steps: 0,
        failures: 0,
        size,
        place,
        long: false,
    };
    let a: Cid = 0;
    let b: Cid = 1;
    let small = |n: u32| format!("small-{n}").into_bytes();
    let big_version = place_ix == 0 || place_ix == 1 || place_ix == 3;
    let big_snapshot = place_ix == 2 || place_ix == 3;
    // a bystander with a chain and a snapshot of its own
    r.step(SymOp::AddVersion { c: b, parent: NIL, data: small(100) });
    let bl = r.model.client(b).map(|c| c.latest()).unwrap_or(NIL);
    r.step(SymOp::AddSnapshot { c: b, v: bl, data: small(101) });
    // client A
    if place_ix == 0 {
        r.step(SymOp::AddVersion { c: a, parent: NIL, data: sized_bytes(1, size) });
    } else {
        r.step(SymOp::AddVersion { c: a, parent: NIL, data: small(1) });
        let l = r.model.client(a).map(|c| c.latest()).unwrap_or(NIL);
        r.step(SymOp::AddVersion { c: a, parent: l, data: small(2) });
        if big_version {
            let l = r.model.client(a).map(|c| c.latest()).unwrap_or(NIL);
            r.step(SymOp::AddVersion { c: a, parent: l, data: sized_bytes(2, size) });
        }
    }
    let latest = |r: &Run| r.model.client(a).map(|c| c.latest()).unwrap_or(NIL);
    // straight afterwards: the latest has no child, its parent has exactly it
    let l = latest(&r);
    r.step(SymOp::GetChild { c: a, parent: l });
    let par = r.model.client(a).and_then(|c| c.chain.last().map(|v| v.parent)).unwrap_or(NIL);
    r.step(SymOp::GetChild { c: a, parent: par });
    // the history goes on: an accepted version, a conflicting one
    r.step(SymOp::AddVersion { c: a, parent: l, data: small(3) });
    r.step(SymOp::AddVersion { c: a, parent: l, data: small(4) });
    // a snapshot of the latest version (sized or small), read back, then more history
    let l = latest(&r);
    let snap = if big_snapshot { sized_bytes(3, size) } else { small(5) };
    r.step(SymOp::AddSnapshot { c: a, v: l, data: snap });
    r.step(SymOp::GetSnapshot { c: a });
    r.step(SymOp::AddVersion { c: a, parent: l, data: small(6) });
    r.step(SymOp::GetSnapshot { c: a });
    // an older snapshot is declined and changes nothing
    r.step(SymOp::AddSnapshot { c: a, v: par, data: small(7) });
    r.step(SymOp::GetSnapshot { c: a });
    r.walk(a, "same server");
    r.walk(b, "same server, bystander");
    r.step(SymOp::GetSnapshot { c: b });
    r.compare_store("same server");
    if spec.is_sql() {
        match r.sut.sut.reopen() {
            Ok(()) => {
                r.steps.push("Reopen".into());
                r.walk(a, "after reopening the database");
                r.step(SymOp::GetSnapshot { c: a });
                r.compare_store("after reopening the database");
            }
            Err(e) => r.find(vec!["C13"], "reopen", format!("reopening the database failed: {e}")),
        }
    }
    json!({"findings": r.findings, "steps": r.n_steps, "failures": r.failures})
}

/// E-LONG: one long history per implementation - counts, not sizes. `n` versions of client A
/// under the default snapshot targets (14 days, 100 versions), snapshots at a few points so
/// that the versions-since counter crosses its low and high thresholds more than once, a second
/// client syncing now and then, six bystanders that must come out untouched, reads, conflicts
/// and declined snapshots at every power of two and around 100 / 150 / 255 / 1000, full walks
/// and store comparisons at 256 and at the end (and after a reopen).
pub fn run_long(spec_name: &str, n: usize, seed: u64) -> Value {
    let spec = spec_from_name(spec_name).expect("spec");
    let cfg = Config { days: 14, versions: 100 };
    let mut r = Run {
        sut: SymSut::new(spec, cfg, seed, 8),
        model: Model::new(cfg),
        http: spec.is_http(),
        findings: vec![],
        steps: vec![],
        n_steps: 0,
        failures: 0,
        size: n,
        place: "long-history",
        long: true,
    };
    let a: Cid = 0;
    let b: Cid = 1;
    let latest = |r: &Run, c: Cid| r.model.client(c).map(|cl| cl.latest()).unwrap_or(NIL);
    for c in 2..8u8 {
        r.step(SymOp::AddVersion { c, parent: NIL, data: format!("bystander-{c}").into_bytes() });
        let l = latest(&r, c);
        r.step(SymOp::AddSnapshot { c, v: l, data: format!("bystander-snap-{c}").into_bytes() });
    }
    let snap_at = [3usize, 160, 420, 1030, 2500, 4100];
    let is_check = |i: usize| i.is_power_of_two() || (i + 1).is_power_of_two() || [99, 100, 101, 149, 150, 151, 254, 257, 999, 1000, 1001].contains(&i);
    for i in 1..=n {
        let l = latest(&r, a);
        r.step(SymOp::AddVersion { c: a, parent: l, data: format!("version-{i}").into_bytes() });
        if i % 97 == 0 {
            let lb = latest(&r, b);
            r.step(SymOp::AddVersion { c: b, parent: lb, data: format!("other-{i}").into_bytes() });
            if i % 194 == 0 {
                let lb = latest(&r, b);
                r.step(SymOp::AddSnapshot { c: b, v: lb, data: format!("other-snap-{i}").into_bytes() });
            }
        }
        if snap_at.contains(&i) {
            let l = latest(&r, a);
            r.step(SymOp::AddSnapshot { c: a, v: l, data: format!("snapshot-{i}").into_bytes() });
            r.step(SymOp::GetSnapshot { c: a });
        }
        if is_check(i) {
            let l = latest(&r, a);
            r.step(SymOp::GetChild { c: a, parent: l });
            let (mid, first) = {
                let ch = &r.model.client(a).unwrap().chain;
                (ch[ch.len() / 2].parent, ch[0].id)
            };
            r.step(SymOp::GetChild { c: a, parent: mid });
            // a replica that is behind: conflict naming the latest, nothing changes
            r.step(SymOp::AddVersion { c: a, parent: first, data: b"stale".to_vec() });
            // a snapshot for a version far behind the current one: declined
            if i > 12 {
                r.step(SymOp::AddSnapshot { c: a, v: first, data: b"too-old".to_vec() });
            }
            r.step(SymOp::GetSnapshot { c: a });
        }
        if i == 256 || i == n {
            r.walk(a, "same server");
            r.walk(b, "same server, second client");
            r.compare_store("same server");
            if spec.is_sql() {
                match r.sut.sut.reopen() {
                    Ok(()) => {
                        r.steps.push("Reopen".into());
                        r.walk(a, "after reopening the database");
                        r.step(SymOp::GetSnapshot { c: a });
                        r.compare_store("after reopening the database");
                    }
                    Err(e) => r.find(vec!["C13"], "reopen", format!("reopening the database failed: {e}")),
                }
            }
        }
        if r.findings.len() >= 12 {
            break;
        }
    }
    for c in 2..8u8 {
        let before = r.findings.len();
        r.walk(c, "bystander at the end");
        r.step(SymOp::GetSnapshot { c });
        if r.findings.len() > before {
            r.find(vec!["C09"], "bystander", format!("bystander client {} does not read back what it stored before the long history of client A", (b'A' + c) as char));
        }
    }
    json!({"findings": r.findings, "steps": r.n_steps, "failures": r.failures})
}

pub fn worker_main() {
    crate::pool::serve(|pv| {
        let seed = pv["seed"].as_u64().unwrap_or(1);
        move |task: &Value| -> Value {
            if let Some(n) = task["long"].as_u64() {
                return run_long(task["spec"].as_str().unwrap_or(""), n as usize, seed);
            }
            run_one(task["spec"].as_str().unwrap_or(""), task["size"].as_u64().unwrap_or(1) as usize, task["place"].as_u64().unwrap_or(0) as usize, seed)
        }
    });
}
