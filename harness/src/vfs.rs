//! Shim VFS (DESIGN.md 3.6): wraps SQLite's default unix VFS and is registered as the new
//! default, so every connection `SqliteStorage` opens goes through it — no change to the
//! repository. It forwards everything, and reports each call to a process-global hook which
//! can log it (E-CRASH), fail it (E-FAULT) or treat it as a scheduling point (E-SCHED).

use libsqlite3_sys as ffi;
use std::ffi::{CStr, CString};
use std::os::raw::{c_char, c_int, c_void};
use std::sync::{Arc, Once, RwLock};

#[derive(Clone, Debug, PartialEq, Eq)]
pub enum VfsCall {
    Open { path: String, flags: i32 },
    Delete { path: String, sync_dir: bool },
    Access { path: String, flags: i32 },
    Read { path: String, off: i64, len: usize },
    Write { path: String, off: i64, data: Vec<u8> },
    Truncate { path: String, size: i64 },
    Sync { path: String, flags: i32 },
    FileSize { path: String },
    Lock { path: String, level: i32 },
    Unlock { path: String, level: i32 },
    CheckReservedLock { path: String },
    ShmMap { path: String, region: i32, extend: bool },
    ShmLock { path: String, offset: i32, n: i32, flags: i32 },
    ShmUnmap { path: String, delete: bool },
    Close { path: String },
    Sleep { micros: i32 },
}

impl VfsCall {
    pub fn name(&self) -> &'static str {
        match self {
            VfsCall::Open { .. } => "xOpen",
            VfsCall::Delete { .. } => "xDelete",
            VfsCall::Access { .. } => "xAccess",
            VfsCall::Read { .. } => "xRead",
            VfsCall::Write { .. } => "xWrite",
            VfsCall::Truncate { .. } => "xTruncate",
            VfsCall::Sync { .. } => "xSync",
            VfsCall::FileSize { .. } => "xFileSize",
            VfsCall::Lock { .. } => "xLock",
            VfsCall::Unlock { .. } => "xUnlock",
            VfsCall::CheckReservedLock { .. } => "xCheckReservedLock",
            VfsCall::ShmMap { .. } => "xShmMap",
            VfsCall::ShmLock { .. } => "xShmLock",
            VfsCall::ShmUnmap { .. } => "xShmUnmap",
            VfsCall::Close { .. } => "xClose",
            VfsCall::Sleep { .. } => "xSleep",
        }
    }
    pub fn path(&self) -> Option<&str> {
        match self {
            VfsCall::Open { path, .. }
            | VfsCall::Delete { path, .. }
            | VfsCall::Access { path, .. }
            | VfsCall::Read { path, .. }
            | VfsCall::Write { path, .. }
            | VfsCall::Truncate { path, .. }
            | VfsCall::Sync { path, .. }
            | VfsCall::FileSize { path }
            | VfsCall::Lock { path, .. }
            | VfsCall::Unlock { path, .. }
            | VfsCall::CheckReservedLock { path }
            | VfsCall::ShmMap { path, .. }
            | VfsCall::ShmLock { path, .. }
            | VfsCall::ShmUnmap { path, .. }
            | VfsCall::Close { path } => Some(path),
            VfsCall::Sleep { .. } => None,
        }
    }
    /// Short rendering without payload bytes.
    pub fn brief(&self) -> String {
        match self {
            VfsCall::Write { path, off, data } => format!("xWrite({}, off={}, {}B)", base(path), off, data.len()),
            VfsCall::Read { path, off, len } => format!("xRead({}, off={}, {}B)", base(path), off, len),
            VfsCall::Open { path, flags } => format!("xOpen({}, {:#x})", base(path), flags),
            VfsCall::Delete { path, sync_dir } => format!("xDelete({}, sync_dir={})", base(path), sync_dir),
            VfsCall::Truncate { path, size } => format!("xTruncate({}, {})", base(path), size),
            VfsCall::Sync { path, flags } => format!("xSync({}, {:#x})", base(path), flags),
            VfsCall::Lock { path, level } => format!("xLock({}, {})", base(path), level),
            VfsCall::Unlock { path, level } => format!("xUnlock({}, {})", base(path), level),
            VfsCall::ShmLock { path, offset, n, flags } => format!("xShmLock({}, {}, {}, {:#x})", base(path), offset, n, flags),
            other => match other.path() {
                Some(p) => format!("{}({})", other.name(), base(p)),
                None => other.name().to_string(),
            },
        }
    }
}

pub fn base(p: &str) -> &str {
    p.rsplit('/').next().unwrap_or(p)
}

/// Hook interface. `before` may return a result code to return *instead of* performing the
/// call; `after` may replace the result code of a call that was performed.
pub trait VfsHook: Send + Sync {
    fn before(&self, _call: &VfsCall) -> Option<i32> {
        None
    }
    fn after(&self, _call: &VfsCall, _rc: i32) -> Option<i32> {
        None
    }
    /// xSleep: return true if the hook handled the wait (no real sleeping).
    fn sleep(&self, _micros: i32) -> bool {
        true
    }
}

static HOOK: RwLock<Option<Arc<dyn VfsHook>>> = RwLock::new(None);

pub fn set_hook(h: Option<Arc<dyn VfsHook>>) {
    *HOOK.write().unwrap() = h;
}

fn hook() -> Option<Arc<dyn VfsHook>> {
    HOOK.read().unwrap().clone()
}

#[repr(C)]
struct ShimFile {
    base: ffi::sqlite3_file,
    real: *mut ffi::sqlite3_file,
    real_buf: *mut Vec<u64>,
    path: *mut String,
}

static mut REAL_VFS: *mut ffi::sqlite3_vfs = std::ptr::null_mut();
static mut SHIM_VFS: *mut ffi::sqlite3_vfs = std::ptr::null_mut();
static mut IO_METHODS: *mut ffi::sqlite3_io_methods = std::ptr::null_mut();
static INSTALL: Once = Once::new();

unsafe fn file_path(f: *mut ffi::sqlite3_file) -> String {
    let sf = f as *mut ShimFile;
    (*(*sf).path).clone()
}

unsafe fn real(f: *mut ffi::sqlite3_file) -> *mut ffi::sqlite3_file {
    (*(f as *mut ShimFile)).real
}

macro_rules! hooked {
    ($call:expr, $real:expr) => {{
        let h = hook();
        let call = $call;
        if let Some(h) = &h {
            if let Some(rc) = h.before(&call) {
                return rc;
            }
        }
        let rc: c_int = $real;
        if let Some(h) = &h {
            if let Some(rc2) = h.after(&call, rc) {
                return rc2;
            }
        }
        rc
    }};
}

unsafe extern "C" fn x_close(f: *mut ffi::sqlite3_file) -> c_int {
    let sf = f as *mut ShimFile;
    let path = file_path(f);
    let h = hook();
    let call = VfsCall::Close { path };
    if let Some(h) = &h {
        let _ = h.before(&call);
    }
    let r = (*sf).real;
    let rc = if !(*r).pMethods.is_null() { ((*(*r).pMethods).xClose.unwrap())(r) } else { ffi::SQLITE_OK };
    drop(Box::from_raw((*sf).real_buf));
    drop(Box::from_raw((*sf).path));
    (*sf).real = std::ptr::null_mut();
    (*sf).base.pMethods = std::ptr::null();
    if let Some(h) = &h {
        let _ = h.after(&call, rc);
    }
    rc
}

unsafe extern "C" fn x_read(f: *mut ffi::sqlite3_file, buf: *mut c_void, amt: c_int, off: ffi::sqlite3_int64) -> c_int {
    let r = real(f);
    hooked!(VfsCall::Read { path: file_path(f), off, len: amt as usize }, ((*(*r).pMethods).xRead.unwrap())(r, buf, amt, off))
}

unsafe extern "C" fn x_write(f: *mut ffi::sqlite3_file, buf: *const c_void, amt: c_int, off: ffi::sqlite3_int64) -> c_int {
    let r = real(f);
    let data = std::slice::from_raw_parts(buf as *const u8, amt as usize).to_vec();
    hooked!(VfsCall::Write { path: file_path(f), off, data }, ((*(*r).pMethods).xWrite.unwrap())(r, buf, amt, off))
}

unsafe extern "C" fn x_truncate(f: *mut ffi::sqlite3_file, size: ffi::sqlite3_int64) -> c_int {
    let r = real(f);
    hooked!(VfsCall::Truncate { path: file_path(f), size }, ((*(*r).pMethods).xTruncate.unwrap())(r, size))
}

unsafe extern "C" fn x_sync(f: *mut ffi::sqlite3_file, flags: c_int) -> c_int {
    let r = real(f);
    hooked!(VfsCall::Sync { path: file_path(f), flags }, ((*(*r).pMethods).xSync.unwrap())(r, flags))
}

unsafe extern "C" fn x_file_size(f: *mut ffi::sqlite3_file, out: *mut ffi::sqlite3_int64) -> c_int {
    let r = real(f);
    hooked!(VfsCall::FileSize { path: file_path(f) }, ((*(*r).pMethods).xFileSize.unwrap())(r, out))
}

unsafe extern "C" fn x_lock(f: *mut ffi::sqlite3_file, level: c_int) -> c_int {
    let r = real(f);
    hooked!(VfsCall::Lock { path: file_path(f), level }, ((*(*r).pMethods).xLock.unwrap())(r, level))
}

unsafe extern "C" fn x_unlock(f: *mut ffi::sqlite3_file, level: c_int) -> c_int {
    let r = real(f);
    hooked!(VfsCall::Unlock { path: file_path(f), level }, ((*(*r).pMethods).xUnlock.unwrap())(r, level))
}

unsafe extern "C" fn x_check_reserved(f: *mut ffi::sqlite3_file, out: *mut c_int) -> c_int {
    let r = real(f);
    hooked!(VfsCall::CheckReservedLock { path: file_path(f) }, ((*(*r).pMethods).xCheckReservedLock.unwrap())(r, out))
}

unsafe extern "C" fn x_file_control(f: *mut ffi::sqlite3_file, op: c_int, arg: *mut c_void) -> c_int {
    let r = real(f);
    ((*(*r).pMethods).xFileControl.unwrap())(r, op, arg)
}

unsafe extern "C" fn x_sector_size(f: *mut ffi::sqlite3_file) -> c_int {
    let r = real(f);
    ((*(*r).pMethods).xSectorSize.unwrap())(r)
}

unsafe extern "C" fn x_device_characteristics(f: *mut ffi::sqlite3_file) -> c_int {
    let r = real(f);
    ((*(*r).pMethods).xDeviceCharacteristics.unwrap())(r)
}

unsafe extern "C" fn x_shm_map(f: *mut ffi::sqlite3_file, region: c_int, sz: c_int, extend: c_int, out: *mut *mut c_void) -> c_int {
    let r = real(f);
    hooked!(VfsCall::ShmMap { path: file_path(f), region, extend: extend != 0 }, ((*(*r).pMethods).xShmMap.unwrap())(r, region, sz, extend, out))
}

unsafe extern "C" fn x_shm_lock(f: *mut ffi::sqlite3_file, offset: c_int, n: c_int, flags: c_int) -> c_int {
    let r = real(f);
    hooked!(VfsCall::ShmLock { path: file_path(f), offset, n, flags }, ((*(*r).pMethods).xShmLock.unwrap())(r, offset, n, flags))
}

unsafe extern "C" fn x_shm_barrier(f: *mut ffi::sqlite3_file) {
    let r = real(f);
    ((*(*r).pMethods).xShmBarrier.unwrap())(r)
}

unsafe extern "C" fn x_shm_unmap(f: *mut ffi::sqlite3_file, delete: c_int) -> c_int {
    let r = real(f);
    hooked!(VfsCall::ShmUnmap { path: file_path(f), delete: delete != 0 }, ((*(*r).pMethods).xShmUnmap.unwrap())(r, delete))
}

unsafe fn cstr(p: *const c_char) -> String {
    if p.is_null() {
        "<temp>".to_string()
    } else {
        CStr::from_ptr(p).to_string_lossy().to_string()
    }
}

unsafe extern "C" fn v_open(_vfs: *mut ffi::sqlite3_vfs, zname: ffi::sqlite3_filename, f: *mut ffi::sqlite3_file, flags: c_int, out_flags: *mut c_int) -> c_int {
    let sf = f as *mut ShimFile;
    (*sf).base.pMethods = std::ptr::null();
    let path = cstr(zname as *const c_char);
    let h = hook();
    let call = VfsCall::Open { path: path.clone(), flags };
    if let Some(h) = &h {
        if let Some(rc) = h.before(&call) {
            return rc;
        }
    }
    let rv = REAL_VFS;
    let words = ((*rv).szOsFile as usize + 7) / 8;
    let buf: Box<Vec<u64>> = Box::new(vec![0u64; words.max(1)]);
    let buf_ptr = Box::into_raw(buf);
    let realf = (*buf_ptr).as_mut_ptr() as *mut ffi::sqlite3_file;
    let rc = ((*rv).xOpen.unwrap())(rv, zname, realf, flags, out_flags);
    if rc != ffi::SQLITE_OK {
        if !(*realf).pMethods.is_null() {
            ((*(*realf).pMethods).xClose.unwrap())(realf);
        }
        drop(Box::from_raw(buf_ptr));
        if let Some(h) = &h {
            if let Some(rc2) = h.after(&call, rc) {
                return rc2;
            }
        }
        return rc;
    }
    (*sf).real = realf;
    (*sf).real_buf = buf_ptr;
    (*sf).path = Box::into_raw(Box::new(path));
    (*sf).base.pMethods = IO_METHODS;
    if let Some(h) = &h {
        if let Some(rc2) = h.after(&call, rc) {
            if rc2 != ffi::SQLITE_OK {
                // report failure although the file was opened: close it again
                x_close(f);
                return rc2;
            }
        }
    }
    rc
}

unsafe extern "C" fn v_delete(_vfs: *mut ffi::sqlite3_vfs, zname: *const c_char, sync_dir: c_int) -> c_int {
    let rv = REAL_VFS;
    hooked!(VfsCall::Delete { path: cstr(zname), sync_dir: sync_dir != 0 }, ((*rv).xDelete.unwrap())(rv, zname, sync_dir))
}

unsafe extern "C" fn v_access(_vfs: *mut ffi::sqlite3_vfs, zname: *const c_char, flags: c_int, out: *mut c_int) -> c_int {
    let rv = REAL_VFS;
    hooked!(VfsCall::Access { path: cstr(zname), flags }, ((*rv).xAccess.unwrap())(rv, zname, flags, out))
}

unsafe extern "C" fn v_full_pathname(_vfs: *mut ffi::sqlite3_vfs, zname: *const c_char, n: c_int, out: *mut c_char) -> c_int {
    let rv = REAL_VFS;
    ((*rv).xFullPathname.unwrap())(rv, zname, n, out)
}

unsafe extern "C" fn v_sleep(_vfs: *mut ffi::sqlite3_vfs, micros: c_int) -> c_int {
    if let Some(h) = hook() {
        if h.sleep(micros) {
            return micros;
        }
    }
    let rv = REAL_VFS;
    ((*rv).xSleep.unwrap())(rv, micros)
}

/// Register the shim as SQLite's default VFS (idempotent).
pub fn install() {
    INSTALL.call_once(|| unsafe {
        let rv = ffi::sqlite3_vfs_find(std::ptr::null());
        assert!(!rv.is_null(), "no default sqlite vfs");
        REAL_VFS = rv;
        let io = Box::new(ffi::sqlite3_io_methods {
            iVersion: 2,
            xClose: Some(x_close),
            xRead: Some(x_read),
            xWrite: Some(x_write),
            xTruncate: Some(x_truncate),
            xSync: Some(x_sync),
            xFileSize: Some(x_file_size),
            xLock: Some(x_lock),
            xUnlock: Some(x_unlock),
            xCheckReservedLock: Some(x_check_reserved),
            xFileControl: Some(x_file_control),
            xSectorSize: Some(x_sector_size),
            xDeviceCharacteristics: Some(x_device_characteristics),
            xShmMap: Some(x_shm_map),
            xShmLock: Some(x_shm_lock),
            xShmBarrier: Some(x_shm_barrier),
            xShmUnmap: Some(x_shm_unmap),
            xFetch: None,
            xUnfetch: None,
        });
        IO_METHODS = Box::into_raw(io);
        let mut v: ffi::sqlite3_vfs = std::ptr::read(rv);
        v.iVersion = (*rv).iVersion.min(2);
        v.szOsFile = std::mem::size_of::<ShimFile>() as c_int;
        v.pNext = std::ptr::null_mut();
        v.zName = CString::new("tcss-shim").unwrap().into_raw();
        v.pAppData = rv as *mut c_void;
        v.xOpen = Some(v_open);
        v.xDelete = Some(v_delete);
        v.xAccess = Some(v_access);
        v.xFullPathname = Some(v_full_pathname);
        v.xSleep = Some(v_sleep);
        SHIM_VFS = Box::into_raw(Box::new(v));
        let rc = ffi::sqlite3_vfs_register(SHIM_VFS, 1);
        assert_eq!(rc, ffi::SQLITE_OK, "sqlite3_vfs_register failed");
    });
}

// ---------------------------------------------------------------------------------------------
// a recording hook

use std::sync::Mutex;

/// Records every call (with its result code) in order; markers can be interleaved.
#[derive(Default)]
pub struct Recorder {
    pub log: Mutex<Vec<LogEntry>>,
    /// the write lock of the write-ahead log is reported busy for this many more attempts
    /// (another connection holds it while the recorded request starts)
    pub busy_left: std::sync::atomic::AtomicUsize,
}

#[derive(Clone, Debug)]
pub enum LogEntry {
    Call { call: VfsCall, rc: i32 },
    Marker(String),
}

impl Recorder {
    pub fn marker(&self, s: &str) {
        self.log.lock().unwrap().push(LogEntry::Marker(s.to_string()));
    }
    pub fn take(&self) -> Vec<LogEntry> {
        std::mem::take(&mut *self.log.lock().unwrap())
    }
}

impl VfsHook for Recorder {
    fn before(&self, call: &VfsCall) -> Option<i32> {
        use std::sync::atomic::Ordering::SeqCst;
        if let VfsCall::ShmLock { offset: 0, flags, .. } = call {
            if flags & 1 == 0 && flags & 8 != 0 && self.busy_left.load(SeqCst) > 0 {
                self.busy_left.fetch_sub(1, SeqCst);
                return Some(5);
            }
        }
        None
    }
    fn after(&self, call: &VfsCall, rc: i32) -> Option<i32> {
        // reads are not needed for crash images and would bloat the log
        if !matches!(call, VfsCall::Read { .. }) {
            self.log.lock().unwrap().push(LogEntry::Call { call: call.clone(), rc });
        }
        None
    }
}
