//! E-FAULT — fault-sequence enumeration (DESIGN.md 4.5, property C05).
//!
//! Two injection layers with one oracle: the `Storage`/`StorageTxn` trait seam (fail the k-th
//! storage call of the request before or after it took effect) and the VFS (fail the k-th
//! file-system call SQLite makes while serving the request). Single faults: every k, every
//! kind; double faults: pairs. After the faulted request the faults are off and a fixed epilogue
//! must be served normally.

use crate::model::{Config, MResp, Model, SnapDecision, SymDump, NIL};
use crate::sut::{resp_matches, SResp, Sut, SutSpec, SymOp, SymSut, DB_FILE};
use crate::vfs::{VfsCall, VfsHook};
use crate::wrap::{Call, Probe};
use serde_json::{json, Value};
use std::sync::{Arc, Mutex};

// ---- trait-layer injector -------------------------------------------------------------------

#[derive(Clone, Copy, Debug, PartialEq, Eq)]
pub enum When {
    Before,
    After,
}

#[derive(Default)]
struct TraitState {
    armed: bool,
    counter: usize,
    plan: Vec<(usize, When)>,
    seen: Vec<&'static str>,
    fired: usize,
}

#[derive(Default)]
pub struct TraitFaults {
    st: Mutex<TraitState>,
}

impl TraitFaults {
    pub fn arm(&self, plan: Vec<(usize, When)>) {
        let mut s = self.st.lock().unwrap();
        s.armed = true;
        s.counter = 0;
        s.plan = plan;
        s.seen.clear();
        s.fired = 0;
    }
    pub fn disarm(&self) -> (Vec<&'static str>, usize) {
        let mut s = self.st.lock().unwrap();
        s.armed = false;
        (std::mem::take(&mut s.seen), s.fired)
    }
}

impl Probe for TraitFaults {
    fn before(&self, call: Call) -> Option<anyhow::Error> {
        let mut s = self.st.lock().unwrap();
        if !s.armed || call == Call::DropTxn {
            return None;
        }
        let idx = s.counter;
        s.seen.push(call.name());
        if s.plan.iter().any(|(k, w)| *k == idx && *w == When::Before) {
            s.counter += 1;
            s.fired += 1;
            return Some(anyhow::anyhow!("injected storage failure before {} (call #{idx})", call.name()));
        }
        None
    }
    fn after(&self, call: Call) -> Option<anyhow::Error> {
        let mut s = self.st.lock().unwrap();
        if !s.armed || call == Call::DropTxn {
            return None;
        }
        let idx = s.counter;
        s.counter += 1;
        if s.plan.iter().any(|(k, w)| *k == idx && *w == When::After) {
            s.fired += 1;
            return Some(anyhow::anyhow!("injected storage failure after {} took effect (call #{idx})", call.name()));
        }
        None
    }
}

// ---- VFS-layer injector ---------------------------------------------------------------------

#[derive(Clone, Debug, PartialEq, Eq)]
pub struct VFault {
    pub k: usize,
    pub when: When,
    pub sticky: bool,
    /// use the alternative error code of this call kind (xWrite: SQLITE_FULL)
    pub alt: bool,
}

#[derive(Default)]
struct VState {
    armed: bool,
    counter: usize,
    plan: Vec<VFault>,
    sticky_on: bool,
    seen: Vec<String>,
    sleeps: u64,
    fired: usize,
    cur: Option<usize>,
    /// the WAL write lock is reported busy for this many more attempts (somebody else holds it)
    busy_left: usize,
}

#[derive(Default)]
pub struct VfsFaults {
    st: Mutex<VState>,
}

fn natural_code(call: &VfsCall, alt: bool) -> Option<i32> {
    Some(match call {
        VfsCall::Open { .. } => 14,                          // SQLITE_CANTOPEN
        VfsCall::Read { .. } => 10 | (1 << 8),               // IOERR_READ
        VfsCall::Write { .. } => if alt { 13 } else { 10 | (3 << 8) }, // FULL / IOERR_WRITE
        VfsCall::Sync { .. } => 10 | (4 << 8),               // IOERR_FSYNC
        VfsCall::Truncate { .. } => 10 | (6 << 8),           // IOERR_TRUNCATE
        VfsCall::FileSize { .. } => 10 | (7 << 8),           // IOERR_FSTAT
        VfsCall::Delete { .. } => 10 | (10 << 8),            // IOERR_DELETE
        VfsCall::Access { .. } => 10 | (13 << 8),            // IOERR_ACCESS
        VfsCall::ShmMap { .. } => 10 | (21 << 8),            // IOERR_SHMMAP
        VfsCall::Lock { .. } | VfsCall::ShmLock { .. } => 5, // BUSY
        VfsCall::CheckReservedLock { .. } => 10 | (14 << 8), // IOERR_CHECKRESERVEDLOCK
        VfsCall::Unlock { .. } => 10 | (8 << 8),             // IOERR_UNLOCK
        VfsCall::ShmUnmap { .. } | VfsCall::Close { .. } | VfsCall::Sleep { .. } => return None,
    })
}

fn after_allowed(call: &VfsCall) -> bool {
    // "took effect but reported failure" makes sense for data and directory operations only
    matches!(call, VfsCall::Write { .. } | VfsCall::Sync { .. } | VfsCall::Truncate { .. } | VfsCall::Delete { .. } | VfsCall::Open { .. })
}

impl VfsFaults {
    pub fn arm(&self, plan: Vec<VFault>) {
        let mut s = self.st.lock().unwrap();
        *s = VState::default();
        s.armed = true;
        s.plan = plan;
    }
    /// Somebody else holds the write lock: the next `w` attempts to take it find it busy.
    pub fn arm_busy(&self, w: usize) {
        let mut s = self.st.lock().unwrap();
        *s = VState::default();
        s.armed = true;
        s.busy_left = w;
    }
    pub fn disarm(&self) -> (Vec<String>, u64, usize) {
        let mut s = self.st.lock().unwrap();
        s.armed = false;
        (std::mem::take(&mut s.seen), s.sleeps, s.fired)
    }
    /// count sleeps only (epilogue)
    pub fn watch(&self) {
        let mut s = self.st.lock().unwrap();
        *s = VState::default();
    }
    pub fn sleeps(&self) -> u64 {
        self.st.lock().unwrap().sleeps
    }
}

impl VfsHook for VfsFaults {
    fn before(&self, call: &VfsCall) -> Option<i32> {
        let mut s = self.st.lock().unwrap();
        s.cur = None;
        if !s.armed {
            return None;
        }
        // the write lock of the write-ahead log (lock byte 0, exclusive, acquire)
        if s.busy_left > 0 {
            if let VfsCall::ShmLock { offset: 0, flags, .. } = call {
                if flags & 1 == 0 && flags & 8 != 0 {
                    s.busy_left -= 1;
                    s.fired += 1;
                    return Some(5);
                }
            }
        }
        let Some(_) = natural_code(call, false) else { return None };
        // shm lock releases are never failed (flags & UNLOCK): SQLite ignores their result
        if let VfsCall::ShmLock { flags, .. } = call {
            if flags & 1 != 0 {
                return None;
            }
        }
        let idx = s.counter;
        s.counter += 1;
        s.cur = Some(idx);
        s.seen.push(call.brief());
        if s.sticky_on {
            s.fired += 1;
            return natural_code(call, false);
        }
        if let Some(f) = s.plan.iter().find(|f| f.k == idx && f.when == When::Before).cloned() {
            s.fired += 1;
            if f.sticky {
                s.sticky_on = true;
            }
            return natural_code(call, f.alt);
        }
        None
    }
    fn after(&self, call: &VfsCall, rc: i32) -> Option<i32> {
        let mut s = self.st.lock().unwrap();
        if !s.armed || rc != 0 {
            return None;
        }
        let idx = s.cur?;
        if let Some(f) = s.plan.iter().find(|f| f.k == idx && f.when == When::After).cloned() {
            if after_allowed(call) {
                s.fired += 1;
                if f.sticky {
                    s.sticky_on = true;
                }
                return natural_code(call, f.alt);
            }
        }
        None
    }
    fn sleep(&self, _micros: i32) -> bool {
        self.st.lock().unwrap().sleeps += 1;
        true
    }
}

// ---- scenarios --------------------------------------------------------------------------------

/// The request that gets faulted.
#[derive(Clone, Debug, PartialEq, Eq)]
pub enum FOp {
    AvNewClient,
    AvSmall,
    Av10k,
    AvConflict,
    AsSmall,
    As50k,
    AsDeclined,
    GetChild,
    GetSnapshot,
}

impl FOp {
    pub fn all() -> Vec<FOp> {
        vec![FOp::AvNewClient, FOp::AvSmall, FOp::Av10k, FOp::AvConflict, FOp::AsSmall, FOp::As50k, FOp::AsDeclined, FOp::GetChild, FOp::GetSnapshot]
    }
    pub fn name(&self) -> &'static str {
        match self {
            FOp::AvNewClient => "AddVersion(new client B)",
            FOp::AvSmall => "AddVersion(A, latest, 20B)",
            FOp::Av10k => "AddVersion(A, latest, 10KB)",
            FOp::AvConflict => "AddVersion(A, stale parent)",
            FOp::AsSmall => "AddSnapshot(A, latest, 20B)",
            FOp::As50k => "AddSnapshot(A, latest, 50KB)",
            FOp::AsDeclined => "AddSnapshot(A, unknown id)",
            FOp::GetChild => "GetChildVersion(A, first parent)",
            FOp::GetSnapshot => "GetSnapshot(A)",
        }
    }
    pub fn parse(s: &str) -> Option<FOp> {
        FOp::all().into_iter().find(|f| f.name() == s)
    }
}

fn body(n: usize, tag: u8) -> Vec<u8> {
    (0..n).map(|i| (i as u8).wrapping_mul(29).wrapping_add(tag)).collect()
}

/// Prefix histories (unfaulted) that build the state in which the request is faulted.
pub fn prefix(state: &str) -> Vec<SymOp> {
    if let Some(h) = state.strip_prefix("hist:") {
        // a generated state: an alphabet-level history (thorough tier)
        let hist: Vec<crate::alphabet::AOp> = h.split(';').filter(|x| !x.is_empty()).filter_map(crate::alphabet::AOp::parse).collect();
        let node = crate::eseq::rebuild_node(Config { days: 14, versions: 100 }, &hist, &vec![None; hist.len()]).expect("generated history");
        return node.steps.iter().map(|s| s.sop.clone()).collect();
    }
    match state {
        "empty" => vec![],
        "one-version" => vec![SymOp::AddVersion { c: 0, parent: NIL, data: body(20, 1) }],
        // a snapshot large enough to live on overflow pages: rewriting the client row has to read them
        "chain+50KB-snapshot" => vec![
            SymOp::AddVersion { c: 0, parent: NIL, data: body(20, 1) },
            SymOp::AddVersion { c: 0, parent: 1, data: body(9000, 2) },
            SymOp::AddSnapshot { c: 0, v: 2, data: body(50_000, 3) },
        ],
        _ => vec![
            SymOp::AddVersion { c: 0, parent: NIL, data: body(20, 1) },
            SymOp::AddVersion { c: 0, parent: 1, data: body(3000, 2) },
            SymOp::AddSnapshot { c: 0, v: 1, data: body(100, 3) },
        ],
    }
}

fn resolve(op: &FOp, m: &Model) -> SymOp {
    let la = m.client(0).map(|c| c.latest()).unwrap_or(NIL);
    match op {
        FOp::AvNewClient => SymOp::AddVersion { c: 1, parent: NIL, data: body(20, 9) },
        FOp::AvSmall => SymOp::AddVersion { c: 0, parent: la, data: body(20, 10) },
        FOp::Av10k => SymOp::AddVersion { c: 0, parent: la, data: body(10_000, 11) },
        FOp::AvConflict => SymOp::AddVersion { c: 0, parent: 4242, data: body(20, 12) },
        FOp::AsSmall => SymOp::AddSnapshot { c: 0, v: la, data: body(20, 13) },
        FOp::As50k => SymOp::AddSnapshot { c: 0, v: la, data: body(50_000, 14) },
        FOp::AsDeclined => SymOp::AddSnapshot { c: 0, v: 4343, data: body(20, 15) },
        FOp::GetChild => SymOp::GetChild { c: 0, parent: m.client(0).map(|c| c.base()).unwrap_or(NIL) },
        FOp::GetSnapshot => SymOp::GetSnapshot { c: 0 },
    }
}

/// Apply `sop` to the model with HTTP (`http`) or library semantics; returns the expected answer.
fn model_apply(m: &mut Model, sop: &SymOp, http: bool) -> Option<MResp> {
    match sop {
        SymOp::AddVersion { c, parent, data } => Some(m.add_version(*c, *parent, data, http)),
        SymOp::AddSnapshot { c, v, data } => match m.snapshot_decision(*c, *v) {
            None => Some(MResp::NoSuchClient),
            Some(d) => {
                m.add_snapshot_apply(*c, *v, data, d == SnapDecision::Replace);
                Some(MResp::SnapOk)
            }
        },
        SymOp::GetChild { c, parent } => Some(m.get_child(*c, *parent)),
        SymOp::GetSnapshot { c } => Some(m.get_snapshot(*c)),
        _ => None,
    }
}

/// absent client == existing client with no versions and no snapshot (stored-state comparison)
fn loose(d: &SymDump) -> SymDump {
    let mut x = d.clone();
    x.clients.retain(|c, cl| !(cl.latest == NIL && cl.snapshot.is_none() && !d.versions.iter().any(|v| v.0 == *c)));
    x
}

fn state_is(m: &Model, d: &SymDump, an: &[String]) -> bool {
    if !an.is_empty() {
        return false;
    }
    let md = loose(&m.dump());
    let dd = loose(d);
    // snapshot age is whole days: 0 on both sides
    md == dd
}

pub struct FaultOutcome {
    pub class: &'static str, // "error->before", "error->after", "success->after", "not-reached"
    pub violation: Option<(String, String)>, // (class, message)
    pub fired: usize,
}

pub struct Scenario {
    pub s: SymSut,
    pub model: Model,
    pub files: crate::sut::DirImage,
    pub tab: crate::sut::SymTab,
    pub http: bool,
}

pub fn build_scenario(spec: SutSpec, state: &str, seed: u64, probe: Arc<dyn Probe>) -> Scenario {
    let cfg = Config { days: 14, versions: 100 };
    let mut s = SymSut::from_sut(Sut::with(spec, cfg, None, probe), seed, 2);
    let mut model = Model::new(cfg);
    let http = spec.is_http();
    for op in prefix(state) {
        // ids the history quotes (fresh parents) are taken: versions get later symbols
        let quoted = match &op {
            SymOp::AddVersion { parent, .. } => *parent,
            SymOp::AddSnapshot { v, .. } => *v,
            _ => 0,
        };
        if quoted < 4000 && model.next_sid <= quoted {
            model.next_sid = quoted + 1;
        }
        let new_sid = model.next_sid;
        if let SymOp::AddVersion { c, .. } = &op {
            if !http && model.client(*c).is_none() {
                let cu = s.cuuid(*c);
                let st = s.sut.storage().clone();
                let mut txn = st.txn(cu).unwrap();
                txn.new_client(uuid::Uuid::nil()).unwrap();
                txn.commit().unwrap();
                model.clients.insert(*c, Default::default());
            }
        }
        let r = s.apply(&op, new_sid);
        let m = model_apply(&mut model, &op, http).unwrap();
        resp_matches(&m, &r, http).expect("prefix history on the unfaulted server");
    }
    let files = s.sut.save_files();
    let tab = s.tab.clone();
    Scenario { s, model, files, tab, http }
}

thread_local! {
    /// C18's reading: an error answer means refused, and refused means nothing changed - used with
    /// fault plans in which nothing fails at or after the commit
    static STRICT_ERROR_MEANS_BEFORE: std::cell::Cell<bool> = const { std::cell::Cell::new(false) };
}

/// Run the faulted request (faults armed by the caller through `arm`/`disarm` closures) and judge.
pub fn run_case(sc: &mut Scenario, op: &FOp, arm: &dyn Fn(), disarm: &dyn Fn() -> usize, vf: Option<&VfsFaults>) -> FaultOutcome {
    sc.s.sut.restore_files(&sc.files);
    sc.s.tab = sc.tab.clone();
    let before = sc.model.clone();
    let mut after = sc.model.clone();
    let sop = resolve(op, &before);
    let new_sid = after.next_sid;
    let expect = model_apply(&mut after, &sop, sc.http).unwrap();
    // library entry: unknown client stays unknown (NoSuchClient)
    arm();
    let r = sc.s.apply(&sop, new_sid);
    let fired = disarm();
    if std::env::var("TCSS_DEBUG_FAULT").is_ok() {
        eprintln!("fault debug: fired={fired} answer={:?}", r);
    }
    if fired == 0 {
        return FaultOutcome { class: "not-reached", violation: None, fired };
    }
    // a request that failed after its commit has stored a version under an id the answer never
    // carried: that id is the one the model calls `new_sid`
    let dc = sc.s.dump_concrete();
    if matches!(r, SResp::Fail(_)) {
        let unknown: Vec<uuid::Uuid> = dc.versions.iter().map(|v| v.1).filter(|u| sc.s.tab.sid(*u).is_none()).collect();
        if unknown.len() == 1 {
            sc.s.tab.bind(new_sid, unknown[0]);
        }
    }
    let (d, an) = sc.s.symbolize_dump(&dc);
    let is_before = state_is(&before, &d, &an);
    let is_after = state_is(&after, &d, &an);
    let correct = resp_matches(&expect, &r, sc.http).is_ok();
    let is_error = matches!(r, SResp::Fail(_));
    let mut violation = None;
    let class: &'static str;
    if let SResp::Panic(m) = &r {
        class = "panic";
        violation = Some(("panic".to_string(), format!("the server panicked: {m}")));
    } else if correct {
        class = "success->after";
        if !is_after {
            violation = Some((
                if is_before { "acknowledged-but-not-applied".into() } else { "acknowledged-with-partial-state".into() },
                format!("answer {:?} is the acknowledgement of the request, but the stored state is {} (stored: {:?})", r.kind(), if is_before { "still the one before it" } else { "neither before nor after it" }, crate::sut::fmt_dump(&d)),
            ));
        }
    } else if is_error {
        if is_before {
            class = "error->before";
        } else if is_after {
            class = "error->after";
            if STRICT_ERROR_MEANS_BEFORE.with(|c| c.get()) {
                violation = Some(("error-but-applied".to_string(), format!("request was refused ({:?}) although nothing failed at or after its commit, yet it is completely applied: {}", r, crate::sut::fmt_dump(&d))));
            }
        } else {
            class = "error->partial";
            violation = Some(("partial-effect".to_string(), format!("request failed ({:?}) and left a state that is neither before nor after it: {}; anomalies {:?}", r, crate::sut::fmt_dump(&d), an)));
        }
    } else {
        class = "wrong-answer";
        violation = Some(("wrong-answer".to_string(), format!("a storage step failed, the answer is neither an error nor the correct outcome: expected {:?} or an error, got {:?}", expect, r)));
    }
    // ---- later requests are served normally (faults off)
    if violation.is_none() {
        let mut m = if is_after { after.clone() } else { before.clone() };
        // adopt the real stored state when the loose equivalence hid a created-but-empty client
        for c in d.clients.keys() {
            m.clients.entry(*c).or_default();
        }
        if let Some(v) = vf {
            v.watch();
        }
        let la = m.client(0).map(|c| c.latest()).unwrap_or(NIL);
        // (the pair GetChild(latest) = not-found / AddVersion(latest) = accepted is C08's
        // equivalence, asked of the very server object that saw the failure)
        let epi = vec![
            SymOp::GetChild { c: 0, parent: la },
            SymOp::AddVersion { c: 0, parent: la, data: b"epilogue".to_vec() },
            SymOp::GetChild { c: 0, parent: la },
            SymOp::AddSnapshot { c: 0, v: m.next_sid, data: b"epilogue-snap".to_vec() },
            SymOp::GetSnapshot { c: 0 },
        ];
        for (i, e) in epi.iter().enumerate() {
            if let SymOp::AddVersion { c, .. } = e {
                if !sc.http && m.client(*c).is_none() {
                    let cu = sc.s.cuuid(*c);
                    let st = sc.s.sut.storage().clone();
                    let ok = (|| -> anyhow::Result<()> {
                        let mut txn = st.txn(cu)?;
                        txn.new_client(uuid::Uuid::nil())?;
                        txn.commit()?;
                        Ok(())
                    })();
                    if let Err(e) = ok {
                        violation = Some(("later-request-not-served".into(), format!("after the failed request, creating the client fails: {e:#}")));
                        break;
                    }
                    m.clients.insert(*c, Default::default());
                }
            }
            let ns = m.next_sid;
            let rr = sc.s.apply(e, ns);
            let want = model_apply(&mut m, e, sc.http).unwrap();
            if let Err(err) = resp_matches(&want, &rr, sc.http) {
                violation = Some(("later-request-not-served".into(), format!("after the failed request, {} is not served normally: {err}", e.describe())));
                break;
            }
            if i == 0 {
                if let Some(v) = vf {
                    if v.sleeps() != 0 {
                        violation = Some(("lock-not-released".into(), format!("the first request after the failed one had to wait for a lock ({} busy-handler sleeps)", v.sleeps())));
                        break;
                    }
                }
            }
        }
        if violation.is_none() {
            let dir = sc.s.sut.dir().unwrap();
            if let Ok(con) = rusqlite::Connection::open(dir.join(DB_FILE)) {
                let res: Result<String, _> = con.query_row("PRAGMA integrity_check", [], |r| r.get(0));
                if res.as_deref() != Ok("ok") {
                    violation = Some(("integrity".into(), format!("PRAGMA integrity_check after the failed request: {:?}", res)));
                }
            }
        }
    }
    FaultOutcome { class, violation, fired }
}

/// Worker: task = {layer:"trait"|"vfs", spec, state, op, double:bool, window}
pub fn worker_main() {
    crate::pool::serve(|pv| {
        let seed = pv["seed"].as_u64().unwrap_or(1);
        crate::vfs::install();
        let vf = Arc::new(VfsFaults::default());
        crate::vfs::set_hook(Some(vf.clone()));
        move |task: &Value| -> Value {
            let spec = crate::sut::spec_from_name(task["spec"].as_str().unwrap()).unwrap();
            let state = task["state"].as_str().unwrap().to_string();
            let op = FOp::parse(task["op"].as_str().unwrap()).unwrap();
            let layer = task["layer"].as_str().unwrap().to_string();
            let double = task["double"].as_bool().unwrap_or(false);
            let window = task["window"].as_u64().unwrap_or(10) as usize;
            let only: Option<Value> = task.get("only").cloned().filter(|v| !v.is_null());
            STRICT_ERROR_MEANS_BEFORE.with(|c| c.set(task["strict"].as_bool().unwrap_or(false)));
            let r = std::panic::catch_unwind(std::panic::AssertUnwindSafe(|| {
                let tf = Arc::new(TraitFaults::default());
                let mut sc = build_scenario(spec, &state, seed, tf.clone());
                let mut runs = 0u64;
                let mut classes: std::collections::BTreeMap<String, u64> = Default::default();
                let mut findings = vec![];
                let mut record = |desc: Value, o: FaultOutcome, runs: &mut u64, findings: &mut Vec<Value>| {
                    *runs += 1;
                    *classes.entry(o.class.to_string()).or_insert(0) += 1;
                    if let Some((c, m)) = o.violation {
                        findings.push(json!({"class": c, "msg": m, "fault": desc}));
                    }
                };
                if layer == "sql" {
                    // statement-level failures: one SQL statement of the request is aborted (SQLite
                    // undoes that statement only and leaves the transaction open, as for any
                    // constraint / out-of-space error inside a statement). Injected from outside with
                    // a trigger that raises ABORT, created before and dropped after the request.
                    let dir = sc.s.sut.dir().unwrap().to_path_buf();
                    for (name, when, event) in [
                        ("insert-into-versions", "BEFORE", "INSERT ON versions"),
                        ("update-of-clients", "BEFORE", "UPDATE ON clients"),
                        ("insert-into-clients", "BEFORE", "INSERT ON clients"),
                        ("update-of-clients-late", "AFTER", "UPDATE ON clients"),
                        ("insert-into-versions-late", "AFTER", "INSERT ON versions"),
                    ] {
                        let desc = json!({"layer": "sql", "plan": name});
                        if let Some(o) = &only {
                            if o != &json!(name) {
                                continue;
                            }
                        }
                        let d1 = dir.clone();
                        let d2 = dir.clone();
                        let sql = format!("CREATE TRIGGER injected_fault {when} {event} BEGIN SELECT RAISE(ABORT, 'injected statement failure'); END;");
                        let arm = move || {
                            if let Ok(con) = rusqlite::Connection::open(d1.join(DB_FILE)) {
                                let _ = con.execute_batch(&sql);
                            }
                        };
                        let disarm = move || -> usize {
                            if let Ok(con) = rusqlite::Connection::open(d2.join(DB_FILE)) {
                                let _ = con.execute_batch("DROP TRIGGER IF EXISTS injected_fault;");
                            }
                            1
                        };
                        let o = run_case(&mut sc, &op, &arm, &disarm, Some(&vf));
                        record(desc, o, &mut runs, &mut findings);
                    }
                    return json!({"runs": runs, "calls": 5, "classes": classes, "findings": findings});
                }
                if layer == "busy" {
                    // Another connection holds the write lock while the request starts: the first
                    // W attempts to take it find it busy (the busy handler's sleeps are virtual),
                    // then it is free. For every W of the list; alone, and together with one SQL
                    // statement of the request aborted at statement level.
                    let dir = sc.s.sut.dir().unwrap().to_path_buf();
                    // the other connection exists (and keeps the shared wal-index alive, so that
                    // the request's own connection does not have to rebuild it - which would
                    // need the very lock that is busy)
                    // (opened after the files of the case are in place, closed after the request)
                    let held: std::rc::Rc<std::cell::RefCell<Option<rusqlite::Connection>>> = Default::default();
                    let ws: Vec<usize> = task["windows"].as_array().map(|a| a.iter().map(|x| x.as_u64().unwrap_or(1) as usize).collect()).unwrap_or_default();
                    let stmts: Vec<Option<(&str, &str, &str)>> = vec![
                        None,
                        Some(("insert-into-versions", "BEFORE", "INSERT ON versions")),
                        Some(("update-of-clients", "BEFORE", "UPDATE ON clients")),
                        Some(("insert-into-clients", "BEFORE", "INSERT ON clients")),
                    ];
                    for w in ws {
                        for st in &stmts {
                            let desc = json!({"layer": "busy", "plan": {"write_lock_busy_for_attempts": w, "statement": st.map(|x| x.0)}});
                            if let Some(o) = &only {
                                if o != &desc["plan"] {
                                    continue;
                                }
                            }
                            let (d1, d2) = (dir.clone(), dir.clone());
                            let sql = st.map(|(_, when, event)| format!("CREATE TRIGGER injected_fault {when} {event} BEGIN SELECT RAISE(ABORT, 'injected statement failure'); END;"));
                            let va = vf.clone();
                            let vd = vf.clone();
                            let (h1, h2) = (held.clone(), held.clone());
                            let arm = move || {
                                if let Some(sql) = &sql {
                                    if let Ok(con) = rusqlite::Connection::open(d1.join(DB_FILE)) {
                                        let _ = con.execute_batch(sql);
                                    }
                                }
                                if let Ok(h) = rusqlite::Connection::open(d1.join(DB_FILE)) {
                                    let _: Result<i64, _> = h.query_row("SELECT count(*) FROM clients", [], |r| r.get(0));
                                    *h1.borrow_mut() = Some(h);
                                }
                                va.arm_busy(w);
                            };
                            let disarm = move || -> usize {
                                let fired = vd.disarm().2;
                                drop(h2.borrow_mut().take());
                                if let Ok(con) = rusqlite::Connection::open(d2.join(DB_FILE)) {
                                    let _ = con.execute_batch("DROP TRIGGER IF EXISTS injected_fault;");
                                }
                                fired.max(1)
                            };
                            let o = run_case(&mut sc, &op, &arm, &disarm, Some(&vf));
                            record(desc, o, &mut runs, &mut findings);
                        }
                    }
                    return json!({"runs": runs, "calls": 0, "classes": classes, "findings": findings});
                }
                if layer == "trait" {
                    // unfaulted run to count the calls
                    tf.arm(vec![]);
                    sc.s.sut.restore_files(&sc.files);
                    sc.s.tab = sc.tab.clone();
                    let sop = resolve(&op, &sc.model);
                    let _ = sc.s.apply(&sop, sc.model.next_sid);
                    let (seen, _) = tf.disarm();
                    let n = seen.len();
                    let whens = [When::Before, When::After];
                    let mut plans: Vec<Vec<(usize, When)>> = vec![];
                    for k in 0..n {
                        for w in whens {
                            plans.push(vec![(k, w)]);
                        }
                    }
                    if double {
                        // the second fault is placed among the calls that follow the first failure
                        for k1 in 0..n {
                            for w1 in whens {
                                for k2 in k1 + 1..n + 3 {
                                    for w2 in whens {
                                        plans.push(vec![(k1, w1), (k2, w2)]);
                                    }
                                }
                            }
                        }
                    }
                    for plan in plans {
                        if let Some(o) = &only {
                            if *o != json!(plan.iter().map(|(k, w)| json!([k, format!("{w:?}")])).collect::<Vec<_>>()) {
                                continue;
                            }
                        }
                        let desc = json!(plan.iter().map(|(k, w)| json!([k, format!("{w:?}")])).collect::<Vec<_>>());
                        let p2 = plan.clone();
                        let tfa = tf.clone();
                        let tfd = tf.clone();
                        let o = run_case(&mut sc, &op, &move || tfa.arm(p2.clone()), &move || tfd.disarm().1, Some(&vf));
                        record(json!({"layer": "trait", "calls": seen, "plan": desc}), o, &mut runs, &mut findings);
                    }
                    json!({"runs": runs, "calls": n, "classes": classes, "findings": findings})
                } else {
                    vf.arm(vec![]);
                    sc.s.sut.restore_files(&sc.files);
                    sc.s.tab = sc.tab.clone();
                    let sop = resolve(&op, &sc.model);
                    let _ = sc.s.apply(&sop, sc.model.next_sid);
                    let (seen, _, _) = vf.disarm();
                    let n = seen.len();
                    let mut plans: Vec<Vec<VFault>> = vec![];
                    for k in 0..n {
                        for (when, sticky, alt) in [(When::Before, false, false), (When::Before, true, false), (When::After, false, false), (When::Before, false, true)] {
                            plans.push(vec![VFault { k, when, sticky, alt }]);
                        }
                    }
                    if double {
                        for k1 in 0..n {
                            for k2 in k1 + 1..(k1 + 1 + window).min(n + 5) {
                                plans.push(vec![VFault { k: k1, when: When::Before, sticky: false, alt: false }, VFault { k: k2, when: When::Before, sticky: false, alt: false }]);
                            }
                        }
                    }
                    for plan in plans {
                        let desc = json!(plan.iter().map(|f| json!({"k": f.k, "when": format!("{:?}", f.when), "sticky": f.sticky, "alt": f.alt, "call": seen.get(f.k)})).collect::<Vec<_>>());
                        if let Some(o) = &only {
                            if o != &desc {
                                continue;
                            }
                        }
                        let p2 = plan.clone();
                        let va = vf.clone();
                        let vd = vf.clone();
                        let o = run_case(&mut sc, &op, &move || va.arm(p2.clone()), &move || vd.disarm().2, Some(&vf));
                        record(json!({"layer": "vfs", "plan": desc}), o, &mut runs, &mut findings);
                    }
                    if task["list"].as_bool().unwrap_or(false) {
                        return json!({"runs": runs, "calls": n, "classes": classes, "findings": findings, "seen": seen});
                    }
                    json!({"runs": runs, "calls": n, "classes": classes, "findings": findings})
                }
            }));
            match r {
                Ok(v) => v,
                Err(e) => json!({"error": format!("fault worker panicked: {}", crate::sut::panic_msg(e))}),
            }
        }
    });
}
