//! Worker-process pool. Threads of one process contend on the address-space lock (every SQLite
//! connection maps and unmaps its -shm file), so work is fanned out over *processes*
//! (measured: 16 threads were slower than 1; 16 processes scale). Protocol: the worker is this
//! same binary started as `tcss-verif worker <kind>`; first stdin line = parameters (JSON), then
//! one JSON task per line, one JSON result line per task on stdout.

use serde_json::Value;
use std::io::{BufRead, BufReader, Write};
use std::process::{Child, ChildStdin, ChildStdout, Command, Stdio};

pub struct Pool {
    workers: Vec<(Child, ChildStdin, BufReader<ChildStdout>)>,
    /// seconds without a result after which a worker counts as stalled and is killed
    /// (None: TCSS_TASK_STALL_S or one hour)
    pub stall_s: Option<u64>,
}

impl Pool {
    pub fn spawn(n: usize, kind: &str, params: &Value) -> Pool {
        let exe = std::env::current_exe().expect("current_exe");
        let mut workers = vec![];
        for _ in 0..n.max(1) {
            let mut ch = Command::new(&exe)
                .arg("worker")
                .arg(kind)
                .stdin(Stdio::piped())
                .stdout(Stdio::piped())
                .stderr(Stdio::inherit())
                .spawn()
                .expect("spawn worker");
            let mut stdin = ch.stdin.take().unwrap();
            let stdout = BufReader::new(ch.stdout.take().unwrap());
            writeln!(stdin, "{}", params).expect("write params");
            workers.push((ch, stdin, stdout));
        }
        Pool { workers, stall_s: None }
    }

    pub fn size(&self) -> usize {
        self.workers.len()
    }

    /// Run all tasks, round-robin over the workers; results in task order. A worker that dies
    /// yields `Err` for its unfinished tasks.
    pub fn map(&mut self, tasks: &[Value]) -> Vec<Result<Value, String>> {
        let n = self.workers.len();
        let mut results: Vec<Option<Result<Value, String>>> = (0..tasks.len()).map(|_| None).collect();
        let mut per: Vec<Vec<usize>> = vec![vec![]; n];
        for k in 0..tasks.len() {
            per[k % n].push(k);
        }
        // stall watchdog: a worker that produces no result for a long time (a subject that
        // deadlocks inside the worker's single-threaded runtime, say) is killed, which ends its
        // reader with "worker process ended"; the check then fails as a machinery error instead
        // of hanging
        let stall_s: u64 = self.stall_s.unwrap_or_else(|| std::env::var("TCSS_TASK_STALL_S").ok().and_then(|s| s.parse().ok()).unwrap_or(3600));
        let killed: Vec<std::sync::atomic::AtomicBool> = (0..n).map(|_| std::sync::atomic::AtomicBool::new(false)).collect();
        let pids: Vec<u32> = self.workers.iter().map(|w| w.0.id()).collect();
        let now = || std::time::SystemTime::now().duration_since(std::time::UNIX_EPOCH).map(|d| d.as_secs()).unwrap_or(0);
        let progress: Vec<std::sync::atomic::AtomicU64> = (0..n).map(|_| std::sync::atomic::AtomicU64::new(now())).collect();
        let busy: Vec<std::sync::atomic::AtomicBool> = per.iter().map(|p| std::sync::atomic::AtomicBool::new(!p.is_empty())).collect();
        let all_done = std::sync::atomic::AtomicBool::new(false);
        std::thread::scope(|sc| {
            let (progress, busy, all_done, killed) = (&progress, &busy, &all_done, &killed);
            sc.spawn(move || {
                use std::sync::atomic::Ordering::SeqCst;
                while !all_done.load(SeqCst) {
                    std::thread::sleep(std::time::Duration::from_millis(500));
                    let t = now();
                    for (w, pid) in pids.iter().enumerate() {
                        if busy[w].load(SeqCst) && t.saturating_sub(progress[w].load(SeqCst)) > stall_s {
                            eprintln!("MACHINERY-ERROR: worker {pid} produced no result for {stall_s} s: killed");
                            killed[w].store(true, SeqCst);
                            unsafe {
                                libc::kill(*pid as i32, libc::SIGKILL);
                            }
                            progress[w].store(t, SeqCst);
                        }
                    }
                }
            });
            let mut handles = vec![];
            for (wi, ((_, stdin, stdout), idxs)) in self.workers.iter_mut().zip(per.iter()).enumerate() {
                let h = sc.spawn(move || {
                    let mut out: Vec<(usize, Result<Value, String>)> = vec![];
                    // writer and reader run concurrently so neither pipe can fill up
                    std::thread::scope(|sc2| {
                        let w = sc2.spawn(move || {
                            for &k in idxs {
                                if writeln!(stdin, "{}", tasks[k]).is_err() {
                                    break;
                                }
                            }
                            let _ = stdin.flush();
                        });
                        for &k in idxs {
                            let mut line = String::new();
                            match stdout.read_line(&mut line) {
                                Ok(0) | Err(_) => {
                                    if killed[wi].load(std::sync::atomic::Ordering::SeqCst) {
                                        out.push((k, Err(format!("worker stalled: no result for {stall_s} s (killed)"))));
                                    } else {
                                        out.push((k, Err("worker process ended unexpectedly".into())));
                                    }
                                }
                                Ok(_) => match serde_json::from_str::<Value>(&line) {
                                    Ok(v) => out.push((k, Ok(v))),
                                    Err(e) => out.push((k, Err(format!("bad worker output: {e}")))),
                                },
                            }
                            progress[wi].store(now(), std::sync::atomic::Ordering::SeqCst);
                        }
                        busy[wi].store(false, std::sync::atomic::Ordering::SeqCst);
                        let _ = w.join();
                    });
                    out
                });
                handles.push(h);
            }
            for h in handles {
                if let Ok(v) = h.join() {
                    for (k, r) in v {
                        results[k] = Some(r);
                    }
                }
            }
            all_done.store(true, std::sync::atomic::Ordering::SeqCst);
        });
        results
            .into_iter()
            .map(|r| r.unwrap_or_else(|| Err("no result".into())))
            .collect()
    }
}

impl Drop for Pool {
    fn drop(&mut self) {
        for (ch, stdin, _) in self.workers.drain(..) {
            drop(stdin);
            let mut ch = ch;
            let _ = ch.wait();
        }
    }
}

/// Worker side: read parameters, then serve tasks until stdin closes.
pub fn serve<F: FnMut(&Value) -> Value>(mk: impl FnOnce(&Value) -> F) {
    let stdin = std::io::stdin();
    let mut lines = stdin.lock().lines();
    let Some(Ok(first)) = lines.next() else { return };
    let params: Value = serde_json::from_str(&first).expect("worker params");
    let mut f = mk(&params);
    let stdout = std::io::stdout();
    for line in lines {
        let Ok(line) = line else { break };
        if line.trim().is_empty() {
            continue;
        }
        let task: Value = match serde_json::from_str(&line) {
            Ok(v) => v,
            Err(e) => {
                let mut o = stdout.lock();
                let _ = writeln!(o, "{}", serde_json::json!({"error": format!("bad task: {e}")}));
                continue;
            }
        };
        let r = f(&task);
        let mut o = stdout.lock();
        let _ = writeln!(o, "{}", r);
        let _ = o.flush();
    }
}
