//! In-process driver for the real actix `App` built by `WebServer::config` (DESIGN.md 3.3).

use actix_http::Request;
use actix_web::dev::Service;
use actix_web::http::header::{HeaderName, HeaderValue};
use actix_web::http::Method;
use actix_web::{test, App};
use bytes::Bytes;
use futures::stream;
use taskchampion_sync_server::WebServer;

pub const HS_CT: &str = "application/vnd.taskchampion.history-segment";
pub const SNAP_CT: &str = "application/vnd.taskchampion.snapshot";

#[derive(Clone, Debug, PartialEq, Eq)]
pub struct RawHttp {
    pub status: u16,
    /// header names lower-cased, in response order
    pub headers: Vec<(String, Vec<u8>)>,
    pub body: Vec<u8>,
}

impl RawHttp {
    pub fn header(&self, name: &str) -> Option<&[u8]> {
        let n = name.to_ascii_lowercase();
        self.headers
            .iter()
            .find(|(k, _)| *k == n)
            .map(|(_, v)| v.as_slice())
    }
    pub fn header_count(&self, name: &str) -> usize {
        let n = name.to_ascii_lowercase();
        self.headers.iter().filter(|(k, _)| *k == n).count()
    }
    pub fn header_str(&self, name: &str) -> Option<String> {
        self.header(name)
            .map(|v| String::from_utf8_lossy(v).to_string())
    }
    pub fn brief(&self) -> String {
        let hs: Vec<String> = self
            .headers
            .iter()
            .map(|(k, v)| format!("{}: {}", k, String::from_utf8_lossy(v)))
            .collect();
        format!(
            "{} [{}] body={}B",
            self.status,
            hs.join("; "),
            self.body.len()
        )
    }
}

#[derive(Clone, Debug)]
pub enum Body {
    /// no payload stream items at all
    Empty,
    /// the given chunks, in order (chunks may be empty)
    Chunks(Vec<Vec<u8>>),
    /// `total` bytes generated lazily in chunks of `chunk` bytes (never materialised at once
    /// by the harness); byte i has value (i * 31 + 7) mod 251
    Lazy { total: usize, chunk: usize },
    /// the given chunks, then a payload error
    ThenError(Vec<Vec<u8>>),
    /// the chunks, with the transfer stalling for `secs` (virtual) seconds before chunk
    /// `stall_before`: the gap between two network chunks is part of "however the upload was
    /// split"; the service runs on a paused tokio clock that jumps to the next timer when idle,
    /// so a server-side read timeout shorter than the stall fires deterministically
    Stall { chunks: Vec<Vec<u8>>, stall_before: usize, secs: u64 },
    /// chunks delivered only when the shared gate says it is this stream's turn: lets the
    /// harness enumerate every interleaving of the chunk deliveries of overlapping uploads
    Gated { chunks: Vec<Vec<u8>>, id: usize, gate: std::sync::Arc<Gate> },
}

/// Delivery order for `Body::Gated` streams: `order[k]` is the id of the stream that may deliver
/// its next item (a chunk, or its end-of-body) at step k.
pub struct Gate {
    inner: std::sync::Mutex<GateInner>,
}

struct GateInner {
    order: Vec<usize>,
    pos: usize,
    wakers: Vec<(usize, std::task::Waker)>,
    gone: Vec<usize>,
}

impl std::fmt::Debug for Gate {
    fn fmt(&self, f: &mut std::fmt::Formatter<'_>) -> std::fmt::Result {
        write!(f, "Gate")
    }
}

impl Gate {
    pub fn new(order: Vec<usize>) -> std::sync::Arc<Gate> {
        std::sync::Arc::new(Gate { inner: std::sync::Mutex::new(GateInner { order, pos: 0, wakers: vec![], gone: vec![] }) })
    }
}

struct StallStream {
    chunks: std::collections::VecDeque<Bytes>,
    delivered: usize,
    stall_before: usize,
    secs: u64,
    sleep: Option<std::pin::Pin<Box<tokio::time::Sleep>>>,
    slept: bool,
}

impl futures::Stream for StallStream {
    type Item = Result<Bytes, actix_http::error::PayloadError>;
    fn poll_next(mut self: std::pin::Pin<&mut Self>, cx: &mut std::task::Context<'_>) -> std::task::Poll<Option<Self::Item>> {
        use std::future::Future;
        use std::task::Poll;
        if self.delivered == self.stall_before && !self.slept {
            if self.sleep.is_none() {
                let d = std::time::Duration::from_secs(self.secs);
                self.sleep = Some(Box::pin(tokio::time::sleep(d)));
            }
            match self.sleep.as_mut().unwrap().as_mut().poll(cx) {
                Poll::Pending => return Poll::Pending,
                Poll::Ready(()) => {
                    self.slept = true;
                    self.sleep = None;
                }
            }
        }
        self.delivered += 1;
        Poll::Ready(self.chunks.pop_front().map(Ok))
    }
}

struct GatedStream {
    id: usize,
    chunks: std::collections::VecDeque<Bytes>,
    done: bool,
    gate: std::sync::Arc<Gate>,
}

impl futures::Stream for GatedStream {
    type Item = Result<Bytes, actix_http::error::PayloadError>;
    fn poll_next(mut self: std::pin::Pin<&mut Self>, cx: &mut std::task::Context<'_>) -> std::task::Poll<Option<Self::Item>> {
        use std::task::Poll;
        if self.done {
            return Poll::Ready(None);
        }
        let gate = self.gate.clone();
        let mut g = gate.inner.lock().unwrap();
        while g.pos < g.order.len() && g.gone.contains(&g.order[g.pos]) {
            g.pos += 1;
        }
        if g.pos >= g.order.len() || g.order[g.pos] == self.id {
            if g.pos < g.order.len() {
                g.pos += 1;
            }
            for (_, w) in g.wakers.drain(..) {
                w.wake();
            }
            drop(g);
            let item = self.chunks.pop_front();
            if item.is_none() {
                self.done = true;
            }
            Poll::Ready(item.map(Ok))
        } else {
            let id = self.id;
            g.wakers.retain(|(i, _)| *i != id);
            g.wakers.push((id, cx.waker().clone()));
            Poll::Pending
        }
    }
}

impl Drop for GatedStream {
    fn drop(&mut self) {
        let mut g = self.gate.inner.lock().unwrap();
        g.gone.push(self.id);
        for (_, w) in g.wakers.drain(..) {
            w.wake();
        }
    }
}

pub fn lazy_byte(i: usize) -> u8 {
    ((i.wrapping_mul(31).wrapping_add(7)) % 251) as u8
}

#[derive(Clone, Debug)]
pub struct HttpReq {
    pub method: String,
    pub uri: String,
    pub headers: Vec<(String, Vec<u8>)>,
    pub body: Body,
}

impl HttpReq {
    pub fn describe(&self) -> String {
        let hs: Vec<String> = self
            .headers
            .iter()
            .map(|(k, v)| format!("{}: {}", k, String::from_utf8_lossy(v).escape_debug()))
            .collect();
        let b = match &self.body {
            Body::Empty => "empty".to_string(),
            Body::Chunks(c) => format!(
                "chunks{:?}",
                c.iter().map(|x| x.len()).collect::<Vec<_>>()
            ),
            Body::Lazy { total, chunk } => format!("lazy(total={total},chunk={chunk})"),
            Body::ThenError(c) => format!(
                "chunks{:?}+error",
                c.iter().map(|x| x.len()).collect::<Vec<_>>()
            ),
            Body::Gated { chunks, id, .. } => format!("gated#{id}{:?}", chunks.iter().map(|x| x.len()).collect::<Vec<_>>()),
            Body::Stall { chunks, stall_before, secs } => format!("chunks{:?} stalling {secs}s before #{stall_before}", chunks.iter().map(|x| x.len()).collect::<Vec<_>>()),
        };
        format!("{} {} [{}] body={}", self.method, self.uri, hs.join("; "), b)
    }
}

type CallFn = Box<dyn Fn(Request) -> futures::future::LocalBoxFuture<'static, Result<RawHttp, String>>>;

/// The initialised actix service for one `WebServer`.
pub struct HttpApp {
    call: CallFn,
    /// current-thread runtime with a paused clock (it jumps to the next timer whenever nothing
    /// else can run) + the local task set actix needs
    rt: tokio::runtime::Runtime,
    local: tokio::task::LocalSet,
}

impl HttpApp {
    pub fn new(ws: &WebServer) -> HttpApp {
        let ws = ws.clone();
        let rt = tokio::runtime::Builder::new_current_thread().enable_time().start_paused(true).build().expect("tokio runtime");
        let local = tokio::task::LocalSet::new();
        let app = std::rc::Rc::new(local.block_on(&rt, test::init_service(
            App::new().configure(move |cfg| ws.config(cfg)),
        )));
        let call: CallFn = Box::new(move |req: Request| {
            let app = app.clone();
            Box::pin(async move {
                match app.call(req).await {
                    Ok(resp) => {
                        let status = resp.status().as_u16();
                        let headers = resp
                            .headers()
                            .iter()
                            .map(|(k, v)| (k.as_str().to_ascii_lowercase(), v.as_bytes().to_vec()))
                            .collect();
                        let body = match test::try_read_body(resp).await {
                            Ok(b) => b.to_vec(),
                            Err(e) => return Err(format!("body error: {e:?}")),
                        };
                        Ok(RawHttp {
                            status,
                            headers,
                            body,
                        })
                    }
                    Err(e) => {
                        // An error escaping the whole app: render it as actix would.
                        let resp = e.error_response();
                        let status = resp.status().as_u16();
                        let headers = resp
                            .headers()
                            .iter()
                            .map(|(k, v)| (k.as_str().to_ascii_lowercase(), v.as_bytes().to_vec()))
                            .collect();
                        Ok(RawHttp {
                            status,
                            headers,
                            body: format!("<escaped error: {e}>").into_bytes(),
                        })
                    }
                }
            })
        });
        HttpApp { call, rt, local }
    }

    /// Two requests in flight at once on this (single-threaded) service, as on one actix worker.
    pub fn send_pair(&self, a: &HttpReq, b: &HttpReq) -> (Result<RawHttp, String>, Result<RawHttp, String>) {
        let ra = match self.build(a) {
            Ok(r) => r,
            Err(e) => return (Err(e.clone()), Err(e)),
        };
        let rb = match self.build(b) {
            Ok(r) => r,
            Err(e) => return (Err(e.clone()), Err(e)),
        };
        self.local.block_on(&self.rt, futures::future::join((self.call)(ra), (self.call)(rb)))
    }

    pub fn send(&self, r: &HttpReq) -> Result<RawHttp, String> {
        let req = self.build(r)?;
        self.local.block_on(&self.rt, (self.call)(req))
    }

    /// Build one request. Err = the request cannot be constructed (syntactically invalid for the
    /// in-process service).
    fn build(&self, r: &HttpReq) -> Result<Request, String> {
        let method =
            Method::from_bytes(r.method.as_bytes()).map_err(|e| format!("bad method: {e}"))?;
        let uri: actix_web::http::Uri = r
            .uri
            .parse()
            .map_err(|e| format!("bad uri {:?}: {e}", r.uri))?;
        let mut tr = test::TestRequest::default().method(method).uri(&uri.to_string());
        for (k, v) in &r.headers {
            // pseudo-header of the harness: the protocol version on the request line
            if k == ":version" {
                use actix_web::http::Version;
                tr = tr.version(match v.as_slice() {
                    b"0.9" => Version::HTTP_09,
                    b"1.0" => Version::HTTP_10,
                    b"2" => Version::HTTP_2,
                    b"3" => Version::HTTP_3,
                    _ => Version::HTTP_11,
                });
                continue;
            }
            let name =
                HeaderName::from_bytes(k.as_bytes()).map_err(|e| format!("bad header name: {e}"))?;
            let val = HeaderValue::from_bytes(v).map_err(|e| format!("bad header value: {e}"))?;
            tr = tr.append_header((name, val));
        }
        let req = tr.to_request();
        let payload: actix_http::BoxedPayloadStream = match &r.body {
            Body::Empty => Box::pin(stream::iter(
                Vec::<Result<Bytes, actix_http::error::PayloadError>>::new(),
            )),
            Body::Chunks(cs) => {
                let items: Vec<Result<Bytes, actix_http::error::PayloadError>> =
                    cs.iter().map(|c| Ok(Bytes::from(c.clone()))).collect();
                Box::pin(stream::iter(items))
            }
            Body::ThenError(cs) => {
                let mut items: Vec<Result<Bytes, actix_http::error::PayloadError>> =
                    cs.iter().map(|c| Ok(Bytes::from(c.clone()))).collect();
                items.push(Err(actix_http::error::PayloadError::Incomplete(None)));
                Box::pin(stream::iter(items))
            }
            Body::Stall { chunks, stall_before, secs } => Box::pin(StallStream {
                chunks: chunks.iter().map(|c| Bytes::from(c.clone())).collect(),
                delivered: 0,
                stall_before: *stall_before,
                secs: *secs,
                sleep: None,
                slept: false,
            }),
            Body::Gated { chunks, id, gate } => Box::pin(GatedStream {
                id: *id,
                chunks: chunks.iter().map(|c| Bytes::from(c.clone())).collect(),
                done: false,
                gate: gate.clone(),
            }),
            Body::Lazy { total, chunk } => {
                let total = *total;
                let chunk = (*chunk).max(1);
                let it = (0..total).step_by(chunk).map(move |start| {
                    let end = (start + chunk).min(total);
                    let v: Vec<u8> = (start..end).map(lazy_byte).collect();
                    Ok::<Bytes, actix_http::error::PayloadError>(Bytes::from(v))
                });
                Box::pin(stream::iter(it))
            }
        };
        let (req, _old) = req.replace_payload(actix_http::Payload::Stream { payload });
        Ok(req)
    }
}
