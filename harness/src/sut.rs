//! Systems under test: the five lock-step implementations of DESIGN.md 3.3, a concrete
//! request/response layer, a symbolic layer (ids renamed to `Sid`s) and full state dumps.

use crate::http::{Body, HttpApp, HttpReq, RawHttp, HS_CT, SNAP_CT};
use crate::model::{Cid, Config, MResp, Model, Sid, SymClient, SymDump, SymSnap, Urg, NIL};
use crate::wrap::{Inst, NoProbe, Probe};
use chrono::{Duration, Utc};
use std::collections::{BTreeMap, HashMap, HashSet};
use std::panic::{catch_unwind, AssertUnwindSafe};
use std::path::{Path, PathBuf};
use std::sync::atomic::{AtomicU64, Ordering};
use std::sync::Arc;
use taskchampion_sync_server::WebServer;
use taskchampion_sync_server_core::{
    AddVersionResult, GetVersionResult, InMemoryStorage, Server, ServerConfig, ServerError,
    Snapshot, SnapshotUrgency, Storage,
};
use taskchampion_sync_server_storage_sqlite::SqliteStorage;
use uuid::Uuid;

pub const DB_FILE: &str = "taskchampion-sync-server.sqlite3";

// ---------------------------------------------------------------------------------------------
// scratch space

static SCRATCH_N: AtomicU64 = AtomicU64::new(0);

pub fn scratch_root() -> PathBuf {
    let base = if Path::new("/dev/shm").is_dir() {
        PathBuf::from("/dev/shm")
    } else {
        std::env::temp_dir()
    };
    base.join(format!("tcss-verif-{}", std::process::id()))
}

/// A private scratch directory, removed on drop.
pub struct Scratch(pub PathBuf);
impl Scratch {
    pub fn new(tag: &str) -> Scratch {
        let n = SCRATCH_N.fetch_add(1, Ordering::SeqCst);
        let p = scratch_root().join(format!("{tag}-{n}"));
        std::fs::create_dir_all(&p).expect("create scratch dir");
        Scratch(p)
    }
    pub fn path(&self) -> &Path {
        &self.0
    }
}
impl Drop for Scratch {
    fn drop(&mut self) {
        let _ = std::fs::remove_dir_all(&self.0);
    }
}

pub fn cleanup_scratch_root() {
    let _ = std::fs::remove_dir_all(scratch_root());
}

/// Remove scratch roots left by processes that no longer exist.
pub fn cleanup_stale_scratch() {
    for base in ["/dev/shm".to_string(), std::env::temp_dir().display().to_string()] {
        if let Ok(rd) = std::fs::read_dir(&base) {
            for e in rd.flatten() {
                let name = e.file_name().to_string_lossy().to_string();
                if let Some(pid) = name.strip_prefix("tcss-verif-") {
                    if let Ok(pid) = pid.parse::<u32>() {
                        if !Path::new(&format!("/proc/{pid}")).exists() {
                            let _ = std::fs::remove_dir_all(e.path());
                        }
                    }
                }
            }
        }
    }
}

/// All files of a directory, as bytes (the database directory is flat).
pub type DirImage = BTreeMap<String, Vec<u8>>;

pub fn read_dir_image(dir: &Path) -> DirImage {
    let mut m = DirImage::new();
    if let Ok(rd) = std::fs::read_dir(dir) {
        for e in rd.flatten() {
            if e.path().is_file() {
                m.insert(
                    e.file_name().to_string_lossy().to_string(),
                    std::fs::read(e.path()).unwrap_or_default(),
                );
            }
        }
    }
    m
}

pub fn write_dir_image(dir: &Path, img: &DirImage) {
    std::fs::create_dir_all(dir).expect("create dir");
    if let Ok(rd) = std::fs::read_dir(dir) {
        for e in rd.flatten() {
            let _ = std::fs::remove_file(e.path());
        }
    }
    for (k, v) in img {
        std::fs::write(dir.join(k), v).expect("write image file");
    }
}

// ---------------------------------------------------------------------------------------------
// concrete requests and responses

#[derive(Clone, Debug, PartialEq, Eq)]
pub enum Req {
    AddVersion {
        c: Uuid,
        parent: Uuid,
        data: Vec<u8>,
    },
    GetChild {
        c: Uuid,
        parent: Uuid,
    },
    AddSnapshot {
        c: Uuid,
        v: Uuid,
        data: Vec<u8>,
    },
    GetSnapshot {
        c: Uuid,
    },
}

#[derive(Clone, Debug, PartialEq, Eq)]
pub enum Resp {
    AvOk { id: Uuid, urgency: Urg },
    AvConflict { expected: Uuid },
    GcFound { id: Uuid, parent: Uuid, data: Vec<u8> },
    GcNotFound,
    GcGone,
    NoSuchClient,
    SnapOk,
    GsFound { id: Uuid, data: Vec<u8> },
    GsNone,
    /// library `Err(Other)` or HTTP 5xx
    Fail(String),
    /// the subject panicked
    Panic(String),
    /// an HTTP response that is not the encoding of any protocol outcome for this request
    Undecodable(String),
}

impl Resp {
    pub fn is_failure(&self) -> bool {
        matches!(self, Resp::Fail(_) | Resp::Panic(_) | Resp::Undecodable(_))
    }
}

pub fn panic_msg(e: Box<dyn std::any::Any + Send>) -> String {
    if let Some(s) = e.downcast_ref::<&str>() {
        s.to_string()
    } else if let Some(s) = e.downcast_ref::<String>() {
        s.clone()
    } else {
        "<non-string panic>".to_string()
    }
}

fn urg_of(u: SnapshotUrgency) -> Urg {
    match u {
        SnapshotUrgency::None => Urg::None,
        SnapshotUrgency::Low => Urg::Low,
        SnapshotUrgency::High => Urg::High,
    }
}

/// One library call on a `Server`.
pub fn lib_call(server: &Server, req: &Req) -> Resp {
    let r = catch_unwind(AssertUnwindSafe(|| match req {
        Req::AddVersion { c, parent, data } => match server.add_version(*c, *parent, data.clone())
        {
            Ok((AddVersionResult::Ok(id), u)) => Resp::AvOk {
                id,
                urgency: urg_of(u),
            },
            Ok((AddVersionResult::ExpectedParentVersion(p), _)) => {
                Resp::AvConflict { expected: p }
            }
            Err(ServerError::NoSuchClient) => Resp::NoSuchClient,
            Err(e) => Resp::Fail(format!("{e:#}")),
        },
        Req::GetChild { c, parent } => match server.get_child_version(*c, *parent) {
            Ok(GetVersionResult::Success {
                version_id,
                parent_version_id,
                history_segment,
            }) => Resp::GcFound {
                id: version_id,
                parent: parent_version_id,
                data: history_segment,
            },
            Ok(GetVersionResult::NotFound) => Resp::GcNotFound,
            Ok(GetVersionResult::Gone) => Resp::GcGone,
            Err(ServerError::NoSuchClient) => Resp::NoSuchClient,
            Err(e) => Resp::Fail(format!("{e:#}")),
        },
        Req::AddSnapshot { c, v, data } => match server.add_snapshot(*c, *v, data.clone()) {
            Ok(()) => Resp::SnapOk,
            Err(ServerError::NoSuchClient) => Resp::NoSuchClient,
            Err(e) => Resp::Fail(format!("{e:#}")),
        },
        Req::GetSnapshot { c } => match server.get_snapshot(*c) {
            Ok(Some((id, data))) => Resp::GsFound { id, data },
            Ok(None) => Resp::GsNone,
            Err(ServerError::NoSuchClient) => Resp::NoSuchClient,
            Err(e) => Resp::Fail(format!("{e:#}")),
        },
    }));
    match r {
        Ok(r) => r,
        Err(e) => Resp::Panic(panic_msg(e)),
    }
}

/// The HTTP request that carries `req`, body split into `chunks` pieces (>= 1).
pub fn http_req_for(req: &Req, chunks: usize) -> HttpReq {
    fn split(data: &[u8], n: usize) -> Body {
        let n = n.max(1).min(data.len().max(1));
        let mut out = vec![];
        let base = data.len() / n;
        let mut pos = 0;
        for i in 0..n {
            let end = if i + 1 == n { data.len() } else { pos + base };
            out.push(data[pos..end].to_vec());
            pos = end;
        }
        Body::Chunks(out)
    }
    match req {
        Req::AddVersion { c, parent, data } => HttpReq {
            method: "POST".into(),
            uri: format!("/v1/client/add-version/{parent}"),
            headers: vec![
                ("X-Client-Id".into(), c.to_string().into_bytes()),
                ("Content-Type".into(), HS_CT.as_bytes().to_vec()),
            ],
            body: split(data, chunks),
        },
        Req::GetChild { c, parent } => HttpReq {
            method: "GET".into(),
            uri: format!("/v1/client/get-child-version/{parent}"),
            headers: vec![("X-Client-Id".into(), c.to_string().into_bytes())],
            body: Body::Empty,
        },
        Req::AddSnapshot { c, v, data } => HttpReq {
            method: "POST".into(),
            uri: format!("/v1/client/add-snapshot/{v}"),
            headers: vec![
                ("X-Client-Id".into(), c.to_string().into_bytes()),
                ("Content-Type".into(), SNAP_CT.as_bytes().to_vec()),
            ],
            body: split(data, chunks),
        },
        Req::GetSnapshot { c } => HttpReq {
            method: "GET".into(),
            uri: "/v1/client/snapshot".into(),
            headers: vec![("X-Client-Id".into(), c.to_string().into_bytes())],
            body: Body::Empty,
        },
    }
}

fn hdr_uuid(raw: &RawHttp, name: &str) -> Result<Uuid, String> {
    if raw.header_count(name) != 1 {
        return Err(format!(
            "expected exactly one {name} header, found {}",
            raw.header_count(name)
        ));
    }
    let s = raw.header_str(name).unwrap();
    Uuid::parse_str(&s).map_err(|_| format!("{name} is not a uuid: {s:?}"))
}

/// Decode an HTTP response into a protocol outcome (loosely: strict header/body checks are the
/// C14 monitor's job, see `encode_expected`).
pub fn decode_http(req: &Req, raw: &RawHttp) -> Resp {
    if raw.status >= 500 {
        return Resp::Fail(format!(
            "HTTP {} {}",
            raw.status,
            String::from_utf8_lossy(&raw.body)
        ));
    }
    let und = |m: String| Resp::Undecodable(format!("{m} in {}", raw.brief()));
    match req {
        Req::AddVersion { .. } => match raw.status {
            200 => {
                let id = match hdr_uuid(raw, "X-Version-Id") {
                    Ok(i) => i,
                    Err(e) => return und(e),
                };
                let urgency = match raw.header_count("X-Snapshot-Request") {
                    0 => Urg::None,
                    1 => match raw.header_str("X-Snapshot-Request").unwrap().as_str() {
                        "urgency=low" => Urg::Low,
                        "urgency=high" => Urg::High,
                        o => return und(format!("bad X-Snapshot-Request {o:?}")),
                    },
                    n => return und(format!("{n} X-Snapshot-Request headers")),
                };
                Resp::AvOk { id, urgency }
            }
            409 => match hdr_uuid(raw, "X-Parent-Version-Id") {
                Ok(expected) => Resp::AvConflict { expected },
                Err(e) => und(e),
            },
            404 => Resp::NoSuchClient,
            s => und(format!("unexpected status {s}")),
        },
        Req::GetChild { .. } => match raw.status {
            200 => {
                let id = match hdr_uuid(raw, "X-Version-Id") {
                    Ok(i) => i,
                    Err(e) => return und(e),
                };
                let parent = match hdr_uuid(raw, "X-Parent-Version-Id") {
                    Ok(i) => i,
                    Err(e) => return und(e),
                };
                Resp::GcFound {
                    id,
                    parent,
                    data: raw.body.clone(),
                }
            }
            404 => Resp::GcNotFound,
            410 => Resp::GcGone,
            s => und(format!("unexpected status {s}")),
        },
        Req::AddSnapshot { .. } => match raw.status {
            200 => Resp::SnapOk,
            404 => Resp::NoSuchClient,
            s => und(format!("unexpected status {s}")),
        },
        Req::GetSnapshot { .. } => match raw.status {
            200 => match hdr_uuid(raw, "X-Version-Id") {
                Ok(id) => Resp::GsFound {
                    id,
                    data: raw.body.clone(),
                },
                Err(e) => und(e),
            },
            404 => Resp::GsNone,
            s => und(format!("unexpected status {s}")),
        },
    }
}

// ---------------------------------------------------------------------------------------------
// implementations

#[derive(Clone, Copy, Debug, PartialEq, Eq, Hash, PartialOrd, Ord)]
pub enum Entry {
    Lib,
    Http,
}

#[derive(Clone, Copy, Debug, PartialEq, Eq, Hash, PartialOrd, Ord)]
pub enum BackendKind {
    Mem,
    Sql,
}

#[derive(Clone, Copy, Debug, PartialEq, Eq, Hash, PartialOrd, Ord)]
pub struct SutSpec {
    pub entry: Entry,
    pub backend: BackendKind,
    /// new `SqliteStorage` + `Server` before every request
    pub reopen_each: bool,
    /// HTTP entry with an allow-list naming every client of the exploration (C16's twin)
    pub allow_all: bool,
}

pub const MEM_LIB: SutSpec = SutSpec {
    entry: Entry::Lib,
    backend: BackendKind::Mem,
    reopen_each: false,
    allow_all: false,
};
pub const SQL_LIB: SutSpec = SutSpec {
    entry: Entry::Lib,
    backend: BackendKind::Sql,
    reopen_each: false,
    allow_all: false,
};
pub const SQL_LIB_REOPEN: SutSpec = SutSpec {
    entry: Entry::Lib,
    backend: BackendKind::Sql,
    reopen_each: true,
    allow_all: false,
};
pub const MEM_HTTP: SutSpec = SutSpec {
    entry: Entry::Http,
    backend: BackendKind::Mem,
    reopen_each: false,
    allow_all: false,
};
pub const SQL_HTTP: SutSpec = SutSpec {
    entry: Entry::Http,
    backend: BackendKind::Sql,
    reopen_each: false,
    allow_all: false,
};

pub const MEM_HTTP_ALLOW: SutSpec = SutSpec {
    entry: Entry::Http,
    backend: BackendKind::Mem,
    reopen_each: false,
    allow_all: true,
};
pub const SQL_HTTP_ALLOW: SutSpec = SutSpec {
    entry: Entry::Http,
    backend: BackendKind::Sql,
    reopen_each: false,
    allow_all: true,
};

/// the whole front end (storage object, `WebServer`, actix app) built anew before every
/// request: what a server that is restarted between any two requests looks like
pub const SQL_HTTP_REOPEN: SutSpec = SutSpec {
    entry: Entry::Http,
    backend: BackendKind::Sql,
    reopen_each: true,
    allow_all: false,
};
pub const SQL_HTTP_ALLOW_REOPEN: SutSpec = SutSpec {
    entry: Entry::Http,
    backend: BackendKind::Sql,
    reopen_each: true,
    allow_all: true,
};

impl SutSpec {
    pub fn name(&self) -> &'static str {
        if self.allow_all {
            return match (self.backend, self.reopen_each) {
                (BackendKind::Mem, _) => "MemHttpAllow",
                (BackendKind::Sql, false) => "SqlHttpAllow",
                (BackendKind::Sql, true) => "SqlHttpAllowReopen",
            };
        }
        match (self.entry, self.backend, self.reopen_each) {
            (Entry::Lib, BackendKind::Mem, _) => "MemLib",
            (Entry::Lib, BackendKind::Sql, false) => "SqlLib",
            (Entry::Lib, BackendKind::Sql, true) => "SqlLibReopen",
            (Entry::Http, BackendKind::Mem, _) => "MemHttp",
            (Entry::Http, BackendKind::Sql, false) => "SqlHttp",
            (Entry::Http, BackendKind::Sql, true) => "SqlHttpReopen",
        }
    }
    pub fn is_http(&self) -> bool {
        self.entry == Entry::Http
    }
    pub fn is_sql(&self) -> bool {
        self.backend == BackendKind::Sql
    }
}

pub fn spec_from_name(n: &str) -> Option<SutSpec> {
    [MEM_LIB, SQL_LIB, SQL_LIB_REOPEN, MEM_HTTP, SQL_HTTP, MEM_HTTP_ALLOW, SQL_HTTP_ALLOW, SQL_HTTP_REOPEN, SQL_HTTP_ALLOW_REOPEN].into_iter().find(|s| s.name() == n)
}

pub fn server_config(cfg: Config) -> ServerConfig {
    ServerConfig {
        snapshot_days: cfg.days,
        snapshot_versions: cfg.versions,
    }
}

enum Front {
    Lib(Server),
    Http(HttpApp),
}

pub struct Sut {
    pub spec: SutSpec,
    pub cfg: Config,
    pub allow: Option<HashSet<Uuid>>,
    pub probe: Arc<dyn Probe>,
    scratch: Option<Scratch>,
    storage: Arc<dyn Storage>,
    front: Front,
    /// raw response of the last HTTP request (None for library entry)
    pub last_raw: Option<RawHttp>,
    /// number of body chunks used for HTTP uploads
    pub chunks: usize,
}

fn build_front(
    spec: SutSpec,
    cfg: Config,
    allow: &Option<HashSet<Uuid>>,
    storage: &Arc<dyn Storage>,
    probe: &Arc<dyn Probe>,
) -> Front {
    let inst = Inst::new(storage.clone(), probe.clone());
    match spec.entry {
        Entry::Lib => Front::Lib(Server::new(server_config(cfg), inst)),
        Entry::Http => {
            let ws = WebServer::new(server_config(cfg), allow.clone(), inst);
            Front::Http(HttpApp::new(&ws))
        }
    }
}

impl Sut {
    pub fn new(spec: SutSpec, cfg: Config) -> Sut {
        Sut::with(spec, cfg, None, Arc::new(NoProbe))
    }

    pub fn with(
        spec: SutSpec,
        cfg: Config,
        allow: Option<HashSet<Uuid>>,
        probe: Arc<dyn Probe>,
    ) -> Sut {
        let (scratch, storage): (Option<Scratch>, Arc<dyn Storage>) = match spec.backend {
            BackendKind::Mem => (None, Arc::new(InMemoryStorage::new())),
            BackendKind::Sql => {
                let s = Scratch::new("sut");
                let st = SqliteStorage::new(s.path()).expect("SqliteStorage::new");
                (Some(s), Arc::new(st))
            }
        };
        let front = build_front(spec, cfg, &allow, &storage, &probe);
        Sut {
            spec,
            cfg,
            allow,
            probe,
            scratch,
            storage,
            front,
            last_raw: None,
            chunks: 1,
        }
    }

    /// A Sut over an existing database directory (not removed on drop).
    pub fn open_dir(
        spec: SutSpec,
        cfg: Config,
        dir: &Path,
        allow: Option<HashSet<Uuid>>,
        probe: Arc<dyn Probe>,
    ) -> anyhow::Result<Sut> {
        assert!(spec.is_sql());
        let st = SqliteStorage::new(dir)?;
        let storage: Arc<dyn Storage> = Arc::new(st);
        let front = build_front(spec, cfg, &allow, &storage, &probe);
        Ok(Sut {
            spec,
            cfg,
            allow,
            probe,
            scratch: None,
            storage,
            front,
            last_raw: None,
            chunks: 1,
        })
    }

    pub fn dir(&self) -> Option<&Path> {
        self.scratch.as_ref().map(|s| s.path())
    }

    /// Direct access to the underlying (uninstrumented) storage, for dumps and `AgeSnapshot`.
    pub fn storage(&self) -> &Arc<dyn Storage> {
        &self.storage
    }

    /// Drop and re-create storage object and front end (SQLite: re-runs schema setup; the
    /// in-memory backend has nothing to reopen, so only the front end is rebuilt).
    pub fn reopen(&mut self) -> Result<(), String> {
        if self.spec.is_sql() {
            let dir = self.dir().expect("sql sut has a dir").to_path_buf();
            let st = catch_unwind(AssertUnwindSafe(|| SqliteStorage::new(&dir)))
                .map_err(|e| format!("panic in SqliteStorage::new: {}", panic_msg(e)))?
                .map_err(|e| format!("SqliteStorage::new failed: {e:#}"))?;
            self.storage = Arc::new(st);
        }
        self.front = build_front(self.spec, self.cfg, &self.allow, &self.storage, &self.probe);
        Ok(())
    }

    /// Start over with empty storage.
    pub fn reset(&mut self) {
        match self.spec.backend {
            BackendKind::Mem => {
                self.storage = Arc::new(InMemoryStorage::new());
            }
            BackendKind::Sql => {
                let dir = self.dir().unwrap().to_path_buf();
                write_dir_image(&dir, &DirImage::new());
                self.storage = Arc::new(SqliteStorage::new(&dir).expect("SqliteStorage::new"));
            }
        }
        self.front = build_front(self.spec, self.cfg, &self.allow, &self.storage, &self.probe);
    }

    pub fn call(&mut self, req: &Req) -> Resp {
        if self.spec.reopen_each {
            if let Err(e) = self.reopen() {
                return Resp::Fail(e);
            }
        }
        match &self.front {
            Front::Lib(server) => {
                self.last_raw = None;
                lib_call(server, req)
            }
            Front::Http(app) => {
                let hr = http_req_for(req, self.chunks);
                let r = catch_unwind(AssertUnwindSafe(|| app.send(&hr)));
                match r {
                    Ok(Ok(raw)) => {
                        let resp = decode_http(req, &raw);
                        self.last_raw = Some(raw);
                        resp
                    }
                    Ok(Err(e)) => {
                        self.last_raw = None;
                        Resp::Undecodable(e)
                    }
                    Err(e) => {
                        self.last_raw = None;
                        // the app may be in an undefined state after a panic: rebuild it
                        let m = panic_msg(e);
                        self.front = build_front(
                            self.spec,
                            self.cfg,
                            &self.allow,
                            &self.storage,
                            &self.probe,
                        );
                        Resp::Panic(m)
                    }
                }
            }
        }
    }

    /// Send an arbitrary HTTP request (HTTP entry only).
    pub fn send_http(&mut self, hr: &HttpReq) -> Result<RawHttp, String> {
        if self.spec.reopen_each {
            self.reopen()?;
        }
        match &self.front {
            Front::Http(app) => match catch_unwind(AssertUnwindSafe(|| app.send(hr))) {
                Ok(r) => r,
                Err(e) => {
                    let m = panic_msg(e);
                    self.front = build_front(
                        self.spec,
                        self.cfg,
                        &self.allow,
                        &self.storage,
                        &self.probe,
                    );
                    Err(format!("PANIC: {m}"))
                }
            },
            Front::Lib(_) => Err("not an HTTP sut".into()),
        }
    }

    /// Two HTTP requests in flight at once on the one in-process service (HTTP entry only).
    pub fn send_http_pair(&mut self, a: &HttpReq, b: &HttpReq) -> (Result<RawHttp, String>, Result<RawHttp, String>) {
        match &self.front {
            Front::Http(app) => match catch_unwind(AssertUnwindSafe(|| app.send_pair(a, b))) {
                Ok(r) => r,
                Err(e) => {
                    let m = panic_msg(e);
                    self.front = build_front(self.spec, self.cfg, &self.allow, &self.storage, &self.probe);
                    (Err(format!("PANIC: {m}")), Err(format!("PANIC: {m}")))
                }
            },
            Front::Lib(_) => (Err("not an HTTP sut".into()), Err("not an HTTP sut".into())),
        }
    }

    /// Environment step "time passes": rewrite the stored snapshot's timestamp so that it is
    /// `days` whole days old, keeping version, bytes and counter.
    pub fn age_snapshot(&mut self, c: Uuid, days: i64) -> Result<(), String> {
        let st = self.storage.clone();
        let r = catch_unwind(AssertUnwindSafe(|| -> anyhow::Result<()> {
            let mut txn = st.txn(c)?;
            let cl = txn.get_client()?;
            if let Some(cl) = cl {
                if let Some(snap) = cl.snapshot {
                    let data = txn
                        .get_snapshot_data(snap.version_id)?
                        .ok_or_else(|| anyhow::anyhow!("snapshot metadata without data"))?;
                    txn.set_snapshot(
                        Snapshot {
                            version_id: snap.version_id,
                            timestamp: Utc::now() - Duration::days(days) - Duration::hours(1),
                            versions_since: snap.versions_since,
                        },
                        data,
                    )?;
                    txn.commit()?;
                }
            }
            Ok(())
        }));
        match r {
            Ok(Ok(())) => Ok(()),
            Ok(Err(e)) => Err(format!("{e:#}")),
            Err(e) => Err(format!("panic: {}", panic_msg(e))),
        }
    }

    pub fn save_files(&self) -> DirImage {
        read_dir_image(self.dir().expect("sql sut"))
    }

    pub fn restore_files(&mut self, img: &DirImage) {
        let dir = self.dir().expect("sql sut").to_path_buf();
        write_dir_image(&dir, img);
    }
}

// ---------------------------------------------------------------------------------------------
// dumps

/// Concrete image of everything stored, in a canonical order.
#[derive(Clone, Debug, Default, PartialEq, Eq)]
pub struct Dump {
    /// client -> (latest, snapshot (version, since, timestamp secs, bytes))
    pub clients: BTreeMap<Uuid, (Uuid, Option<(Uuid, u64, i64, Vec<u8>)>)>,
    /// (client, id, parent, bytes)
    pub versions: std::collections::BTreeSet<(Uuid, Uuid, Uuid, Vec<u8>)>,
    /// anything that does not fit the above (inconsistent views, foreign rows, odd types)
    pub anomalies: Vec<String>,
    /// raw rendering of the SQLite tables (None for the in-memory backend)
    pub raw: Option<Vec<String>>,
}

/// API view: through `StorageTxn`, over the given clients and ids.
pub fn dump_api(storage: &Arc<dyn Storage>, clients: &[Uuid], ids: &[Uuid]) -> Dump {
    let mut d = Dump::default();
    let r = catch_unwind(AssertUnwindSafe(|| -> anyhow::Result<Dump> {
        let mut d = Dump::default();
        for &c in clients {
            let mut txn = storage.txn(c)?;
            let Some(cl) = txn.get_client()? else {
                // an absent client must not own anything
                for &id in ids {
                    if let Some(v) = txn.get_version(id)? {
                        d.anomalies
                            .push(format!("absent client {c} owns version {}", v.version_id));
                    }
                    if let Some(v) = txn.get_version_by_parent(id)? {
                        d.anomalies.push(format!(
                            "absent client {c} owns child {} of {id}",
                            v.version_id
                        ));
                    }
                }
                continue;
            };
            let snap = match cl.snapshot {
                Some(s) => {
                    let data = match txn.get_snapshot_data(s.version_id) {
                        Ok(Some(b)) => b,
                        Ok(None) => {
                            d.anomalies
                                .push(format!("client {c}: snapshot metadata without data"));
                            vec![]
                        }
                        Err(e) => {
                            d.anomalies
                                .push(format!("client {c}: get_snapshot_data failed: {e:#}"));
                            vec![]
                        }
                    };
                    Some((
                        s.version_id,
                        s.versions_since as u64,
                        s.timestamp.timestamp(),
                        data,
                    ))
                }
                None => None,
            };
            d.clients.insert(c, (cl.latest_version_id, snap));
            for &id in ids {
                if let Some(v) = txn.get_version(id)? {
                    if v.version_id != id {
                        d.anomalies
                            .push(format!("get_version({id}) returned {}", v.version_id));
                    }
                    // cross-check the by-parent index
                    match txn.get_version_by_parent(v.parent_version_id)? {
                        Some(w) if w == v => {}
                        Some(w) => d.anomalies.push(format!(
                            "client {c}: by-parent({}) gives {} but version {} has that parent",
                            v.parent_version_id, w.version_id, v.version_id
                        )),
                        None => d.anomalies.push(format!(
                            "client {c}: version {} not reachable by its parent {}",
                            v.version_id, v.parent_version_id
                        )),
                    }
                    d.versions
                        .insert((c, v.version_id, v.parent_version_id, v.history_segment));
                }
                if let Some(v) = txn.get_version_by_parent(id)? {
                    if v.parent_version_id != id {
                        d.anomalies.push(format!(
                            "get_version_by_parent({id}) returned parent {}",
                            v.parent_version_id
                        ));
                    }
                    match txn.get_version(v.version_id)? {
                        Some(w) if w == v => {}
                        _ => d.anomalies.push(format!(
                            "client {c}: child {} of {id} not retrievable by id",
                            v.version_id
                        )),
                    }
                    d.versions
                        .insert((c, v.version_id, v.parent_version_id, v.history_segment));
                }
            }
        }
        Ok(d)
    }));
    match r {
        Ok(Ok(x)) => x,
        Ok(Err(e)) => {
            d.anomalies.push(format!("dump failed: {e:#}"));
            d
        }
        Err(e) => {
            d.anomalies.push(format!("dump panicked: {}", panic_msg(e)));
            d
        }
    }
}

fn sql_val(v: rusqlite::types::ValueRef<'_>) -> String {
    use rusqlite::types::ValueRef::*;
    match v {
        Null => "NULL".into(),
        Integer(i) => format!("i:{i}"),
        Real(f) => format!("f:{f}"),
        Text(t) => format!("t:{}", String::from_utf8_lossy(t)),
        Blob(b) => format!("b:{}", hex(b)),
    }
}

pub fn hex(b: &[u8]) -> String {
    if b.len() > 48 {
        // long payloads: length + FNV hash, enough for equality comparison in reports
        let mut h: u64 = 0xcbf29ce484222325;
        for x in b {
            h ^= *x as u64;
            h = h.wrapping_mul(0x100000001b3);
        }
        return format!("<{}B fnv={h:016x}>", b.len());
    }
    b.iter().map(|x| format!("{x:02x}")).collect()
}

/// Raw view of a SQLite database directory: every row of every table, and the schema.
pub fn dump_sql_raw(dir: &Path) -> Dump {
    let mut d = Dump::default();
    let mut raw = vec![];
    let r = (|| -> anyhow::Result<()> {
        let con = rusqlite::Connection::open_with_flags(
            dir.join(DB_FILE),
            rusqlite::OpenFlags::SQLITE_OPEN_READ_WRITE,
        )?;
        {
            let mut st = con.prepare("SELECT type, name, tbl_name, sql FROM sqlite_master ORDER BY name")?;
            let mut rows = st.query([])?;
            while let Some(r) = rows.next()? {
                raw.push(format!(
                    "schema|{}|{}|{}|{}",
                    sql_val(r.get_ref(0)?),
                    sql_val(r.get_ref(1)?),
                    sql_val(r.get_ref(2)?),
                    sql_val(r.get_ref(3)?)
                ));
            }
        }
        {
            let mut st = con.prepare(
                "SELECT client_id, latest_version_id, snapshot_version_id, versions_since_snapshot, snapshot_timestamp, snapshot FROM clients ORDER BY client_id",
            )?;
            let mut rows = st.query([])?;
            while let Some(r) = rows.next()? {
                let vals: Vec<String> = (0..6).map(|i| sql_val(r.get_ref(i).unwrap())).collect();
                raw.push(format!("clients|{}", vals.join("|")));
                let cid = r.get_ref(0)?.as_str().ok().and_then(|s| Uuid::parse_str(s).ok());
                let latest = r.get_ref(1)?.as_str().ok().and_then(|s| Uuid::parse_str(s).ok());
                let (Some(cid), Some(latest)) = (cid, latest) else {
                    d.anomalies.push(format!("odd clients row {}", vals.join("|")));
                    continue;
                };
                let sv = r.get_ref(2)?;
                let since = r.get_ref(3)?;
                let ts = r.get_ref(4)?;
                let blob = r.get_ref(5)?;
                use rusqlite::types::ValueRef as V;
                let snap = match (sv, since, ts, blob) {
                    (V::Null, V::Null, V::Null, V::Null) => None,
                    (V::Text(sv), V::Integer(since), V::Integer(ts), V::Blob(b)) => {
                        match Uuid::parse_str(&String::from_utf8_lossy(sv)) {
                            Ok(u) if since >= 0 => Some((u, since as u64, ts, b.to_vec())),
                            _ => {
                                d.anomalies.push(format!("odd snapshot columns {}", vals.join("|")));
                                None
                            }
                        }
                    }
                    _ => {
                        d.anomalies.push(format!("odd snapshot columns {}", vals.join("|")));
                        None
                    }
                };
                d.clients.insert(cid, (latest, snap));
            }
        }
        {
            let mut st = con.prepare(
                "SELECT version_id, client_id, parent_version_id, history_segment FROM versions ORDER BY version_id",
            )?;
            let mut rows = st.query([])?;
            while let Some(r) = rows.next()? {
                let vals: Vec<String> = (0..4).map(|i| sql_val(r.get_ref(i).unwrap())).collect();
                raw.push(format!("versions|{}", vals.join("|")));
                let p = |i: usize| -> Option<Uuid> {
                    r.get_ref(i).ok()?.as_str().ok().and_then(|s| Uuid::parse_str(s).ok())
                };
                use rusqlite::types::ValueRef as V;
                match (p(0), p(1), p(2), r.get_ref(3)?) {
                    (Some(v), Some(c), Some(pa), V::Blob(b)) => {
                        d.versions.insert((c, v, pa, b.to_vec()));
                    }
                    _ => d.anomalies.push(format!("odd versions row {}", vals.join("|"))),
                }
            }
        }
        Ok(())
    })();
    if let Err(e) = r {
        d.anomalies.push(format!("raw dump failed: {e:#}"));
    }
    d.raw = Some(raw);
    d
}

// ---------------------------------------------------------------------------------------------
// symbolic layer

pub const UNKNOWN_SID: Sid = u32::MAX;
pub const UNKNOWN_CID: Cid = 255;

/// Deterministic pseudo-random v4-shaped uuid for (seed, kind, n).
pub fn det_uuid(seed: u64, kind: u64, n: u64) -> Uuid {
    let mut x = seed
        .wrapping_mul(0x9E3779B97F4A7C15)
        .wrapping_add(kind.wrapping_mul(0xBF58476D1CE4E5B9))
        .wrapping_add(n.wrapping_mul(0x94D049BB133111EB));
    let mut next = || {
        x ^= x >> 30;
        x = x.wrapping_mul(0xBF58476D1CE4E5B9);
        x ^= x >> 27;
        x = x.wrapping_mul(0x94D049BB133111EB);
        x ^= x >> 31;
        x = x.wrapping_add(0x9E3779B97F4A7C15);
        x
    };
    let hi = next();
    let lo = next();
    let mut b = [0u8; 16];
    b[..8].copy_from_slice(&hi.to_be_bytes());
    b[8..].copy_from_slice(&lo.to_be_bytes());
    b[6] = (b[6] & 0x0f) | 0x40;
    b[8] = (b[8] & 0x3f) | 0x80;
    Uuid::from_bytes(b)
}

/// Which family the client ids of this process are drawn from (ids are values too: a lossy
/// encoding somewhere below can make two of them the same key).
/// 0: pseudo-random v4 ids; 1: all-decimal ids that differ in their last digit only; 2: tiny
/// ids (…0001, …0002, …); 3: the nil id, the all-ones id, and ids differing in one bit;
/// 4: pseudo-random client ids, but the *fresh* ids a client invents (a first parent is the
/// client's to choose) are combinations of client ids - A^B, A-B, B-A, A^C, A+B, B^C, A^B^C -
/// which a non-injective folding of (client, id) into one key maps onto another client's slot.
static ID_FAMILY: std::sync::atomic::AtomicU8 = std::sync::atomic::AtomicU8::new(0);

pub fn set_id_family(f: u8) {
    ID_FAMILY.store(f, Ordering::SeqCst);
}

/// The id-family explorations judge what the protocol shows, not how ids are stored: with an
/// unusual id a backend may keep in another column type or spelling what it finds again all
/// the same - or not, and then the API view shows it.
fn api_view_only() -> bool {
    ID_FAMILY.load(Ordering::SeqCst) != 0
}

pub fn client_uuid(seed: u64, c: Cid) -> Uuid {
    match ID_FAMILY.load(Ordering::SeqCst) {
        1 => Uuid::parse_str(&format!("31415926-5358-4979-8323-8462643{:05}", 38327 + c as u32)).unwrap(),
        2 => Uuid::from_u128(1 + c as u128),
        3 => match c {
            0 => Uuid::nil(),
            1 => Uuid::from_u128(u128::MAX),
            _ => Uuid::from_u128(u128::MAX ^ (1u128 << (c as u32 % 128))),
        },
        _ => det_uuid(seed, 1, c as u64),
    }
}

#[derive(Clone, Debug)]
pub struct SymTab {
    pub seed: u64,
    to_uuid: HashMap<Sid, Uuid>,
    from_uuid: HashMap<Uuid, Sid>,
}

impl SymTab {
    pub fn new(seed: u64) -> SymTab {
        let mut t = SymTab {
            seed,
            to_uuid: HashMap::new(),
            from_uuid: HashMap::new(),
        };
        t.to_uuid.insert(NIL, Uuid::nil());
        t.from_uuid.insert(Uuid::nil(), NIL);
        t
    }
    /// Concrete id for `sid`; unbound sids (fresh ids invented by the explorer) get a
    /// deterministic pseudo-random uuid.
    pub fn uuid(&mut self, sid: Sid) -> Uuid {
        if let Some(u) = self.to_uuid.get(&sid) {
            return *u;
        }
        let mut u = det_uuid(self.seed, 2, sid as u64);
        if ID_FAMILY.load(Ordering::SeqCst) == 4 {
            let a = client_uuid(self.seed, 0).as_u128();
            let b = client_uuid(self.seed, 1).as_u128();
            let c = client_uuid(self.seed, 2).as_u128();
            let combos = [a ^ b, a.wrapping_sub(b), b.wrapping_sub(a), a ^ c, a.wrapping_add(b), b ^ c, a ^ b ^ c];
            if let Some(x) = combos.iter().map(|x| Uuid::from_u128(*x)).find(|x| !self.from_uuid.contains_key(x)) {
                u = x;
            }
        }
        self.bind(sid, u);
        u
    }
    pub fn bind(&mut self, sid: Sid, u: Uuid) {
        self.to_uuid.insert(sid, u);
        self.from_uuid.insert(u, sid);
    }
    pub fn sid(&self, u: Uuid) -> Option<Sid> {
        self.from_uuid.get(&u).copied()
    }
    pub fn sid_or_unknown(&self, u: Uuid) -> Sid {
        self.sid(u).unwrap_or(UNKNOWN_SID)
    }
    pub fn is_bound(&self, sid: Sid) -> bool {
        self.to_uuid.contains_key(&sid)
    }
    pub fn all_uuids(&self) -> Vec<Uuid> {
        let mut v: Vec<(Sid, Uuid)> = self.to_uuid.iter().map(|(s, u)| (*s, *u)).collect();
        v.sort();
        v.into_iter().map(|(_, u)| u).collect()
    }
}

#[derive(Clone, Debug, PartialEq, Eq, Hash)]
pub enum SymOp {
    AddVersion { c: Cid, parent: Sid, data: Vec<u8> },
    GetChild { c: Cid, parent: Sid },
    AddSnapshot { c: Cid, v: Sid, data: Vec<u8> },
    GetSnapshot { c: Cid },
    AgeSnapshot { c: Cid, days: i64 },
    Reopen,
}

impl SymOp {
    pub fn describe(&self) -> String {
        let cn = |c: &Cid| (b'A' + *c) as char;
        let sn = |s: &Sid| if *s == NIL { "nil".to_string() } else { format!("#{s}") };
        match self {
            SymOp::AddVersion { c, parent, data } => {
                format!("AddVersion({}, parent={}, {})", cn(c), sn(parent), show_bytes(data))
            }
            SymOp::GetChild { c, parent } => format!("GetChild({}, parent={})", cn(c), sn(parent)),
            SymOp::AddSnapshot { c, v, data } => {
                format!("AddSnapshot({}, v={}, {})", cn(c), sn(v), show_bytes(data))
            }
            SymOp::GetSnapshot { c } => format!("GetSnapshot({})", cn(c)),
            SymOp::AgeSnapshot { c, days } => format!("AgeSnapshot({}, {}d)", cn(c), days),
            SymOp::Reopen => "Reopen".to_string(),
        }
    }
}

pub fn show_bytes(b: &[u8]) -> String {
    if b.len() <= 24 && b.iter().all(|x| x.is_ascii_graphic() || *x == b' ') {
        format!("{:?}", String::from_utf8_lossy(b))
    } else {
        hex(b)
    }
}

/// Symbolic response of an implementation.
#[derive(Clone, Debug, PartialEq, Eq)]
pub enum SResp {
    AvOk {
        id: Sid,
        urgency: Urg,
        /// the id had never been seen in this run and is not nil
        fresh: bool,
    },
    AvConflict { expected: Sid },
    GcFound { id: Sid, parent: Sid, data: Vec<u8> },
    GcNotFound,
    GcGone,
    NoSuchClient,
    SnapOk,
    GsFound { id: Sid, data: Vec<u8> },
    GsNone,
    /// environment steps
    Done,
    Fail(String),
    Panic(String),
    Undecodable(String),
}

impl SResp {
    pub fn kind(&self) -> &'static str {
        match self {
            SResp::AvOk { .. } => "accepted",
            SResp::AvConflict { .. } => "conflict",
            SResp::GcFound { .. } => "found",
            SResp::GcNotFound => "not-found",
            SResp::GcGone => "gone",
            SResp::NoSuchClient => "no-such-client",
            SResp::SnapOk => "snapshot-ok",
            SResp::GsFound { .. } => "snapshot-found",
            SResp::GsNone => "snapshot-none",
            SResp::Done => "done",
            SResp::Fail(_) => "FAIL",
            SResp::Panic(_) => "PANIC",
            SResp::Undecodable(_) => "UNDECODABLE",
        }
    }
    pub fn is_failure(&self) -> bool {
        matches!(self, SResp::Fail(_) | SResp::Panic(_) | SResp::Undecodable(_))
    }
}

/// Does the implementation's answer match the model's? `http`: the implementation was entered
/// through HTTP, where an unknown client is indistinguishable from not-found (404).
pub fn resp_matches(m: &MResp, s: &SResp, http: bool) -> Result<(), String> {
    let ok = match (m, s) {
        (MResp::AvOk { id, urgency }, SResp::AvOk { id: sid, urgency: u, fresh }) => {
            if !fresh {
                return Err(format!(
                    "accepted version got id #{sid} which is nil or was already in use"
                ));
            }
            if id != sid {
                return Err(format!("accepted version bound to #{sid}, model expected #{id}"));
            }
            if !urgency.contains(*u) {
                return Err(format!("urgency {u:?} not allowed by the model ({urgency:?})"));
            }
            true
        }
        (MResp::AvConflict { expected }, SResp::AvConflict { expected: e }) => expected == e,
        (
            MResp::GcFound { id, parent, data },
            SResp::GcFound {
                id: i,
                parent: p,
                data: d,
            },
        ) => id == i && parent == p && data == d,
        (MResp::GcNotFound, SResp::GcNotFound) => true,
        (MResp::GcGone, SResp::GcGone) => true,
        (MResp::NoSuchClient, SResp::NoSuchClient) => true,
        (MResp::NoSuchClient, SResp::GcNotFound) if http => true,
        (MResp::NoSuchClient, SResp::GsNone) if http => true,
        (MResp::SnapOk, SResp::SnapOk) => true,
        (MResp::GsFound { id, data }, SResp::GsFound { id: i, data: d }) => id == i && data == d,
        (MResp::GsNone, SResp::GsNone) => true,
        _ => false,
    };
    if ok {
        Ok(())
    } else {
        Err(format!("model expects {m:?}, implementation answered {s:?}"))
    }
}

/// A Sut plus its symbol table.
pub struct SymSut {
    pub sut: Sut,
    pub tab: SymTab,
    pub seed: u64,
    pub n_clients: u8,
}

impl SymSut {
    pub fn new(spec: SutSpec, cfg: Config, seed: u64, n_clients: u8) -> SymSut {
        let allow: Option<HashSet<Uuid>> = if spec.allow_all {
            // the clients of the exploration among two dozen other listed ids
            Some((0..n_clients).chain(100..124).map(|c| client_uuid(seed, c)).collect())
        } else {
            None
        };
        SymSut {
            sut: Sut::with(spec, cfg, allow, Arc::new(NoProbe)),
            tab: SymTab::new(seed),
            seed,
            n_clients,
        }
    }
    pub fn from_sut(sut: Sut, seed: u64, n_clients: u8) -> SymSut {
        SymSut {
            sut,
            tab: SymTab::new(seed),
            seed,
            n_clients,
        }
    }

    pub fn name(&self) -> &'static str {
        self.sut.spec.name()
    }

    pub fn cuuid(&self, c: Cid) -> Uuid {
        client_uuid(self.seed, c)
    }

    pub fn cid_of(&self, u: Uuid) -> Cid {
        for c in 0..self.n_clients {
            if client_uuid(self.seed, c) == u {
                return c;
            }
        }
        UNKNOWN_CID
    }

    pub fn reset(&mut self) {
        self.sut.reset();
        self.tab = SymTab::new(self.seed);
    }

    pub fn concretize(&mut self, op: &SymOp) -> Option<Req> {
        Some(match op {
            SymOp::AddVersion { c, parent, data } => Req::AddVersion {
                c: self.cuuid(*c),
                parent: self.tab.uuid(*parent),
                data: data.clone(),
            },
            SymOp::GetChild { c, parent } => Req::GetChild {
                c: self.cuuid(*c),
                parent: self.tab.uuid(*parent),
            },
            SymOp::AddSnapshot { c, v, data } => Req::AddSnapshot {
                c: self.cuuid(*c),
                v: self.tab.uuid(*v),
                data: data.clone(),
            },
            SymOp::GetSnapshot { c } => Req::GetSnapshot { c: self.cuuid(*c) },
            SymOp::AgeSnapshot { .. } | SymOp::Reopen => return None,
        })
    }

    /// Apply one symbolic operation. `new_sid` is the symbolic id the model will give to a
    /// version accepted by this operation.
    pub fn apply(&mut self, op: &SymOp, new_sid: Sid) -> SResp {
        match op {
            SymOp::AgeSnapshot { c, days } => {
                let cu = self.cuuid(*c);
                return match self.sut.age_snapshot(cu, *days) {
                    Ok(()) => SResp::Done,
                    Err(e) => SResp::Fail(e),
                };
            }
            SymOp::Reopen => {
                return match self.sut.reopen() {
                    Ok(()) => SResp::Done,
                    Err(e) => SResp::Fail(e),
                }
            }
            _ => {}
        }
        let req = self.concretize(op).unwrap();
        let resp = self.sut.call(&req);
        self.symbolize(resp, new_sid)
    }

    pub fn symbolize(&mut self, resp: Resp, new_sid: Sid) -> SResp {
        match resp {
            Resp::AvOk { id, urgency } => {
                if let Some(s) = self.tab.sid(id) {
                    SResp::AvOk {
                        id: s,
                        urgency,
                        fresh: false,
                    }
                } else {
                    self.tab.bind(new_sid, id);
                    SResp::AvOk {
                        id: new_sid,
                        urgency,
                        fresh: true,
                    }
                }
            }
            Resp::AvConflict { expected } => SResp::AvConflict {
                expected: self.tab.sid_or_unknown(expected),
            },
            Resp::GcFound { id, parent, data } => SResp::GcFound {
                id: self.tab.sid_or_unknown(id),
                parent: self.tab.sid_or_unknown(parent),
                data,
            },
            Resp::GcNotFound => SResp::GcNotFound,
            Resp::GcGone => SResp::GcGone,
            Resp::NoSuchClient => SResp::NoSuchClient,
            Resp::SnapOk => SResp::SnapOk,
            Resp::GsFound { id, data } => SResp::GsFound {
                id: self.tab.sid_or_unknown(id),
                data,
            },
            Resp::GsNone => SResp::GsNone,
            Resp::Fail(e) => SResp::Fail(e),
            Resp::Panic(e) => SResp::Panic(e),
            Resp::Undecodable(e) => SResp::Undecodable(e),
        }
    }

    pub fn clients(&self) -> Vec<Uuid> {
        (0..self.n_clients).map(|c| self.cuuid(c)).collect()
    }

    /// Concrete dump: API view over everything ever named; for SQLite also the raw tables, and
    /// the two views must agree.
    pub fn dump_concrete(&self) -> Dump {
        let ids = self.tab.all_uuids();
        let mut d = dump_api(self.sut.storage(), &self.clients(), &ids);
        if self.sut.spec.is_sql() && !api_view_only() {
            let raw = dump_sql_raw(self.sut.dir().unwrap());
            // the stored representation of the snapshot time is the backend's business: the
            // API view is authoritative for it, the raw column only has to stay unchanged
            // where nothing may change (compared as text by C18)
            let strip = |m: &BTreeMap<Uuid, (Uuid, Option<(Uuid, u64, i64, Vec<u8>)>)>| -> BTreeMap<Uuid, (Uuid, Option<(Uuid, u64, Vec<u8>)>)> {
                m.iter().map(|(k, (l, s))| (*k, (*l, s.as_ref().map(|(v, n, _, b)| (*v, *n, b.clone()))))).collect()
            };
            if strip(&raw.clients) != strip(&d.clients) {
                d.anomalies.push(format!(
                    "raw clients table {:?} differs from API view {:?}",
                    raw.clients, d.clients
                ));
            }
            if raw.versions != d.versions {
                d.anomalies.push(format!(
                    "raw versions table ({} rows) differs from API view ({} rows): raw={:?} api={:?}",
                    raw.versions.len(),
                    d.versions.len(),
                    raw.versions
                        .iter()
                        .map(|v| (v.0, v.1, v.2, hex(&v.3)))
                        .collect::<Vec<_>>(),
                    d.versions
                        .iter()
                        .map(|v| (v.0, v.1, v.2, hex(&v.3)))
                        .collect::<Vec<_>>()
                ));
            }
            d.anomalies.extend(raw.anomalies);
            d.raw = raw.raw;
        }
        d
    }

    /// Cheaper dump for use after every transition: raw tables only for SQLite (one
    /// connection), API view for the in-memory backend.
    pub fn dump_fast(&self) -> Dump {
        if self.sut.spec.is_sql() && !api_view_only() {
            let mut d = dump_sql_raw(self.sut.dir().unwrap());
            // snapshot times through the API (see dump_concrete)
            let with_snap: Vec<Uuid> = d.clients.iter().filter(|(_, (_, s))| s.is_some()).map(|(c, _)| *c).collect();
            for c in with_snap {
                let st = self.sut.storage().clone();
                let ts = catch_unwind(AssertUnwindSafe(|| -> Option<i64> {
                    let mut txn = st.txn(c).ok()?;
                    txn.get_client().ok()??.snapshot.map(|s| s.timestamp.timestamp())
                }));
                match ts {
                    Ok(Some(t)) => {
                        if let Some((_, Some(s))) = d.clients.get_mut(&c) {
                            s.2 = t;
                        }
                    }
                    _ => d.anomalies.push(format!("client {c}: snapshot columns are set but the API reports no snapshot")),
                }
            }
            d
        } else {
            dump_api(self.sut.storage(), &self.clients(), &self.tab.all_uuids())
        }
    }

    pub fn symbolize_dump(&self, d: &Dump) -> (SymDump, Vec<String>) {
        let mut s = SymDump::default();
        let mut anomalies = d.anomalies.clone();
        let now = Utc::now().timestamp();
        for (c, (latest, snap)) in &d.clients {
            let cid = self.cid_of(*c);
            if cid == UNKNOWN_CID {
                anomalies.push(format!("unknown client {c} in storage"));
            }
            let ls = self.tab.sid_or_unknown(*latest);
            if ls == UNKNOWN_SID {
                anomalies.push(format!("latest {latest} of client {cid} is an id never seen"));
            }
            s.clients.insert(
                cid,
                SymClient {
                    latest: ls,
                    snapshot: snap.as_ref().map(|(v, since, ts, data)| SymSnap {
                        version: self.tab.sid_or_unknown(*v),
                        since: *since,
                        age_days: (now - ts).div_euclid(86400),
                        data: data.clone(),
                    }),
                },
            );
        }
        for (c, v, p, data) in &d.versions {
            let cid = self.cid_of(*c);
            if cid == UNKNOWN_CID {
                anomalies.push(format!("version {v} owned by unknown client {c}"));
            }
            let vs = self.tab.sid_or_unknown(*v);
            let ps = self.tab.sid_or_unknown(*p);
            if vs == UNKNOWN_SID || ps == UNKNOWN_SID {
                anomalies.push(format!("stored version {v} (parent {p}) uses ids never seen"));
            }
            s.versions.insert((cid, vs, ps, data.clone()));
        }
        (s, anomalies)
    }

    /// Symbolic dump + anomalies.
    pub fn dump(&self) -> (SymDump, Vec<String>) {
        let d = self.dump_concrete();
        self.symbolize_dump(&d)
    }
}

/// Compact rendering of a symbolic dump (payloads abbreviated).
pub fn fmt_dump(d: &SymDump) -> String {
    let sid = |s: &Sid| if *s == UNKNOWN_SID { "#?".to_string() } else if *s == NIL { "nil".to_string() } else { format!("#{s}") };
    let cl: Vec<String> = d
        .clients
        .iter()
        .map(|(c, x)| {
            format!(
                "{}: latest {}{}",
                (b'A' + *c) as char,
                sid(&x.latest),
                match &x.snapshot {
                    Some(s) => format!(", snapshot at {} ({} since, {} days, {})", sid(&s.version), s.since, s.age_days, show_bytes(&s.data)),
                    None => String::new(),
                }
            )
        })
        .collect();
    let vs: Vec<String> = d.versions.iter().map(|(c, v, p, data)| format!("{}:{}<-{} {}", (b'A' + *c) as char, sid(v), sid(p), show_bytes(data))).collect();
    format!("clients [{}] versions [{}]", cl.join("; "), vs.join(", "))
}

/// Compare an implementation's dump with the model's. Absent vs. existing-but-empty clients
/// are distinguished.
pub fn dump_matches(model: &Model, d: &SymDump, anomalies: &[String]) -> Result<(), String> {
    if !anomalies.is_empty() {
        return Err(format!("storage anomalies: {}", anomalies.join("; ")));
    }
    let m = model.dump();
    if m.clients != d.clients {
        return Err(format!(
            "client records differ: model {:?}, implementation {:?}",
            m.clients, d.clients
        ));
    }
    if m.versions != d.versions {
        return Err(format!(
            "stored versions differ: model {:?}, implementation {:?}",
            m.versions
                .iter()
                .map(|v| (v.0, v.1, v.2, show_bytes(&v.3)))
                .collect::<Vec<_>>(),
            d.versions
                .iter()
                .map(|v| (v.0, v.1, v.2, show_bytes(&v.3)))
                .collect::<Vec<_>>()
        ));
    }
    Ok(())
}
