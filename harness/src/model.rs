//! Reference model of the TaskChampion sync protocol (DESIGN.md 3.1).
//!
//! Deliberately boring: plain vectors, symbolic ids (`Sid`, 0 = nil), no storage, no errors.
//! Ids are symbolic so that one model run can be compared against several implementations,
//! each of which invents its own random version ids.

use std::collections::BTreeMap;

/// Symbolic id. 0 is the nil version id.
pub type Sid = u32;
pub const NIL: Sid = 0;

/// Symbolic client (0 = A, 1 = B, ...).
pub type Cid = u8;

#[derive(Clone, Copy, Debug, PartialEq, Eq, PartialOrd, Ord, Hash)]
pub enum Urg {
    None,
    Low,
    High,
}

#[derive(Clone, Debug, PartialEq, Eq, Hash)]
pub struct MVersion {
    pub id: Sid,
    pub parent: Sid,
    pub data: Vec<u8>,
}

#[derive(Clone, Debug, PartialEq, Eq, Hash)]
pub struct MSnap {
    pub version: Sid,
    pub data: Vec<u8>,
    /// versions accepted since the snapshot was stored
    pub since: u64,
    /// age of the snapshot in whole days
    pub age_days: i64,
}

#[derive(Clone, Debug, Default, PartialEq, Eq, Hash)]
pub struct MClient {
    pub chain: Vec<MVersion>,
    pub snapshot: Option<MSnap>,
}

impl MClient {
    pub fn latest(&self) -> Sid {
        self.chain.last().map(|v| v.id).unwrap_or(NIL)
    }
    /// Parent id of the first accepted version (nil if none / if it was nil).
    pub fn base(&self) -> Sid {
        self.chain.first().map(|v| v.parent).unwrap_or(NIL)
    }
    /// k-th ancestor of latest (k = 0 is latest itself); walking past the first version gives
    /// the base, then nothing.
    pub fn anc(&self, k: usize) -> Option<Sid> {
        let n = self.chain.len();
        if k < n {
            Some(self.chain[n - 1 - k].id)
        } else if k == n && n > 0 {
            Some(self.base())
        } else {
            None
        }
    }
    /// The ids met walking parent links from latest, newest first, at most `n` of them. Walking
    /// stops at nil (nil itself is included, as the code visits it, but it can never match).
    pub fn window(&self, n: usize) -> Vec<Sid> {
        let mut w = vec![];
        let mut k = 0;
        while w.len() < n {
            match self.anc(k) {
                Some(id) => {
                    w.push(id);
                    if id == NIL {
                        break;
                    }
                }
                None => {
                    if self.chain.is_empty() && w.is_empty() {
                        w.push(NIL);
                    }
                    break;
                }
            }
            k += 1;
        }
        w
    }
    /// Position of `id` counted from the start of the chain: Some(-1) for a non-nil base.
    pub fn position(&self, id: Sid) -> Option<i64> {
        if id == NIL {
            return None;
        }
        if let Some(i) = self.chain.iter().position(|v| v.id == id) {
            return Some(i as i64);
        }
        if !self.chain.is_empty() && self.base() == id {
            return Some(-1);
        }
        None
    }
}

#[derive(Clone, Debug, PartialEq, Eq)]
pub enum MResp {
    AvOk { id: Sid, urgency: UrgSet },
    AvConflict { expected: Sid },
    GcFound { id: Sid, parent: Sid, data: Vec<u8> },
    GcNotFound,
    GcGone,
    NoSuchClient,
    SnapOk,
    GsFound { id: Sid, data: Vec<u8> },
    GsNone,
}

/// Set of urgencies the property allows for one response (more than one only at the
/// rounding point of an odd target, see DESIGN.md 3.1 / C12).
#[derive(Clone, Copy, Debug, PartialEq, Eq)]
pub struct UrgSet {
    pub none: bool,
    pub low: bool,
    pub high: bool,
}

impl UrgSet {
    pub fn one(u: Urg) -> Self {
        UrgSet {
            none: u == Urg::None,
            low: u == Urg::Low,
            high: u == Urg::High,
        }
    }
    pub fn contains(&self, u: Urg) -> bool {
        match u {
            Urg::None => self.none,
            Urg::Low => self.low,
            Urg::High => self.high,
        }
    }
    pub fn union(self, o: UrgSet) -> UrgSet {
        UrgSet {
            none: self.none || o.none,
            low: self.low || o.low,
            high: self.high || o.high,
        }
    }
}

/// What the property says about an AddSnapshot request in the current state.
#[derive(Clone, Copy, Debug, PartialEq, Eq)]
pub enum SnapDecision {
    Replace,
    Keep,
    /// v is the non-nil id the chain started from: the property leaves this open.
    Either,
}

#[derive(Clone, Copy, Debug, PartialEq, Eq, Hash)]
pub struct Config {
    pub days: i64,
    pub versions: u32,
}

pub const SNAPSHOT_WINDOW: usize = 5;

#[derive(Clone, Debug, PartialEq, Eq)]
pub struct Model {
    pub clients: BTreeMap<Cid, MClient>,
    pub next_sid: Sid,
    pub cfg: Config,
}

/// Urgency for one measure `m` against target `t`, exact arithmetic. At the single point where
/// floor(3t/2) <= m < 3t/2 (odd t) both Low and High satisfy the property's wording.
pub fn urgency_measure(m: i128, t: i128) -> UrgSet {
    // high threshold: 1.5 t  <=>  2m >= 3t ; anchored rounding floor(3t/2): m >= (3t)/2
    let high_exact = 2 * m >= 3 * t;
    let high_floor = m >= (3 * t).div_euclid(2);
    if high_exact {
        UrgSet::one(Urg::High)
    } else if high_floor {
        // rounding point: the code answers High; Low (if m >= t) also fits the statement
        let mut s = UrgSet::one(Urg::High);
        if m >= t {
            s.low = true;
        } else {
            s.none = true;
        }
        s
    } else if m >= t {
        UrgSet::one(Urg::Low)
    } else {
        UrgSet::one(Urg::None)
    }
}

/// max() lifted to sets.
pub fn urg_max(a: UrgSet, b: UrgSet) -> UrgSet {
    let all = [Urg::None, Urg::Low, Urg::High];
    let mut r = UrgSet {
        none: false,
        low: false,
        high: false,
    };
    for x in all {
        if !a.contains(x) {
            continue;
        }
        for y in all {
            if !b.contains(y) {
                continue;
            }
            r = r.union(UrgSet::one(std::cmp::max(x, y)));
        }
    }
    r
}

pub fn urgency(cfg: Config, snap: Option<(i64, u64)>) -> UrgSet {
    match snap {
        None => UrgSet::one(Urg::High),
        Some((days, since)) => urg_max(
            urgency_measure(days as i128, cfg.days as i128),
            urgency_measure(since as i128, cfg.versions as i128),
        ),
    }
}

impl Model {
    /// Take back the version `add_version` just accepted for `c` (E-SIZE: the implementation
    /// refused it).
    pub fn undo_last_version(&mut self, c: Cid, existed: bool) {
        if let Some(cl) = self.clients.get_mut(&c) {
            cl.chain.pop();
            if let Some(s) = cl.snapshot.as_mut() {
                s.since = s.since.saturating_sub(1);
            }
            self.next_sid -= 1;
        }
        if !existed {
            self.clients.remove(&c);
        }
    }

    /// some stored payload is of the limit-sized class
    pub fn holds_huge(&self) -> bool {
        self.clients.values().any(|c| {
            c.chain.iter().any(|v| v.data.len() >= 1 << 24) || c.snapshot.as_ref().map(|s| s.data.len() >= 1 << 24).unwrap_or(false)
        })
    }

    pub fn new(cfg: Config) -> Self {
        Model {
            clients: BTreeMap::new(),
            next_sid: 1,
            cfg,
        }
    }

    /// Allocate a symbolic id nobody has seen yet.
    pub fn fresh(&mut self) -> Sid {
        let s = self.next_sid;
        self.next_sid += 1;
        s
    }

    pub fn client(&self, c: Cid) -> Option<&MClient> {
        self.clients.get(&c)
    }

    /// Would AddVersion(c, p) be accepted now? None = no such client.
    pub fn would_accept(&self, c: Cid, p: Sid) -> Option<bool> {
        self.clients
            .get(&c)
            .map(|cl| cl.latest() == NIL || cl.latest() == p)
    }

    /// `auto_create`: the HTTP entry point creates unknown clients; the library answers
    /// NoSuchClient.
    pub fn add_version(&mut self, c: Cid, p: Sid, data: &[u8], auto_create: bool) -> MResp {
        if !self.clients.contains_key(&c) {
            if !auto_create {
                return MResp::NoSuchClient;
            }
            self.clients.insert(c, MClient::default());
        }
        let cfg = self.cfg;
        let next = self.next_sid;
        let cl = self.clients.get_mut(&c).unwrap();
        if cl.latest() != NIL && cl.latest() != p {
            return MResp::AvConflict {
                expected: cl.latest(),
            };
        }
        let urgency = urgency(cfg, cl.snapshot.as_ref().map(|s| (s.age_days, s.since)));
        cl.chain.push(MVersion {
            id: next,
            parent: p,
            data: data.to_vec(),
        });
        if let Some(s) = cl.snapshot.as_mut() {
            s.since += 1;
        }
        self.next_sid += 1;
        MResp::AvOk { id: next, urgency }
    }

    pub fn get_child(&self, c: Cid, p: Sid) -> MResp {
        let Some(cl) = self.clients.get(&c) else {
            return MResp::NoSuchClient;
        };
        if let Some(v) = cl.chain.iter().find(|v| v.parent == p) {
            return MResp::GcFound {
                id: v.id,
                parent: v.parent,
                data: v.data.clone(),
            };
        }
        if cl.latest() == NIL || cl.latest() == p {
            MResp::GcNotFound
        } else {
            MResp::GcGone
        }
    }

    /// The decision the property prescribes; None = no such client.
    pub fn snapshot_decision(&self, c: Cid, v: Sid) -> Option<SnapDecision> {
        let cl = self.clients.get(&c)?;
        if v == NIL {
            return Some(SnapDecision::Keep);
        }
        let cur = cl.snapshot.as_ref().map(|s| s.version);
        if cur == Some(v) {
            return Some(SnapDecision::Keep);
        }
        let w = cl.window(SNAPSHOT_WINDOW);
        let Some(pos) = w.iter().position(|&x| x == v) else {
            // a non-nil base beyond the window is simply "too old": Keep, like any other id
            return Some(SnapDecision::Keep);
        };
        if let Some(cur) = cur {
            if w[..pos].contains(&cur) {
                return Some(SnapDecision::Keep);
            }
        }
        if cl.position(v) == Some(-1) {
            return Some(SnapDecision::Either);
        }
        Some(SnapDecision::Replace)
    }

    /// Apply AddSnapshot with the outcome `replace` (the caller resolves `Either`).
    pub fn add_snapshot_apply(&mut self, c: Cid, v: Sid, data: &[u8], replace: bool) {
        if replace {
            let cl = self.clients.get_mut(&c).unwrap();
            cl.snapshot = Some(MSnap {
                version: v,
                data: data.to_vec(),
                since: 0,
                age_days: 0,
            });
        }
    }

    pub fn get_snapshot(&self, c: Cid) -> MResp {
        let Some(cl) = self.clients.get(&c) else {
            return MResp::NoSuchClient;
        };
        match &cl.snapshot {
            Some(s) => MResp::GsFound {
                id: s.version,
                data: s.data.clone(),
            },
            None => MResp::GsNone,
        }
    }

    /// Environment step: time passes for the stored snapshot of `c`.
    pub fn age_snapshot(&mut self, c: Cid, days: i64) {
        if let Some(s) = self.clients.get_mut(&c).and_then(|cl| cl.snapshot.as_mut()) {
            s.age_days = days;
        }
    }

    /// Everything stored, in symbolic form, for comparison with an implementation's dump.
    pub fn dump(&self) -> SymDump {
        let mut d = SymDump::default();
        for (c, cl) in &self.clients {
            d.clients.insert(
                *c,
                SymClient {
                    latest: cl.latest(),
                    snapshot: cl.snapshot.as_ref().map(|s| SymSnap {
                        version: s.version,
                        since: s.since,
                        age_days: s.age_days,
                        data: s.data.clone(),
                    }),
                },
            );
            for v in &cl.chain {
                d.versions.insert((*c, v.id, v.parent, v.data.clone()));
            }
        }
        d
    }
}

#[derive(Clone, Debug, PartialEq, Eq, PartialOrd, Ord)]
pub struct SymSnap {
    pub version: Sid,
    pub since: u64,
    pub age_days: i64,
    pub data: Vec<u8>,
}

#[derive(Clone, Debug, PartialEq, Eq, PartialOrd, Ord)]
pub struct SymClient {
    pub latest: Sid,
    pub snapshot: Option<SymSnap>,
}

/// Symbolic image of all stored state.
#[derive(Clone, Debug, Default, PartialEq, Eq)]
pub struct SymDump {
    pub clients: BTreeMap<Cid, SymClient>,
    pub versions: std::collections::BTreeSet<(Cid, Sid, Sid, Vec<u8>)>,
}
