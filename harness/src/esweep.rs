//! C12(a): threshold sweep on the real `Server::add_version` (DESIGN.md 5/C12).
//!
//! Full product of boundary configurations x boundary measures, installed through the public
//! `StorageTxn::set_snapshot` on both backends; each call under `catch_unwind`; compared with
//! the exact-arithmetic model; plus monotonicity over the swept grid.

use crate::model::{urgency, Config, Urg};
use crate::sut::{det_uuid, lib_call, Req, Resp, Scratch};
use crate::wrap::Inst;
use chrono::{Duration, Utc};
use serde_json::{json, Value};
use std::sync::Arc;
use taskchampion_sync_server_core::{InMemoryStorage, Server, ServerConfig, Snapshot, Storage};
use taskchampion_sync_server_storage_sqlite::SqliteStorage;
use uuid::Uuid;

/// Largest snapshot age (days) a chrono timestamp can carry comfortably.
pub const MAX_DAYS: i64 = 90_000_000;

pub fn day_targets(quick: bool) -> Vec<i64> {
    let m = i64::MAX;
    let mut v = vec![0, 1, 2, 3, 7, 14, 15, (1 << 31) - 1, 1 << 31, m / 3, m / 3 + 1, m / 3 * 2 + 1, m];
    // values that a narrowing conversion somewhere would fold onto small ones: 2^k and 2^k + 14
    // for the usual integer widths
    for k in [8u32, 16, 32, 48] {
        v.extend([1i64 << k, (1i64 << k) + 14]);
    }
    if !quick {
        v.extend([4, 5, 9, 13, 100, 365, MAX_DAYS / 2, MAX_DAYS, MAX_DAYS + 1, m / 2, m - 1]);
        for k in [15u32, 24, 31, 33, 40, 56, 62] {
            v.extend([(1i64 << k) - 1, 1i64 << k, (1i64 << k) + 1, (1i64 << k) + 14]);
        }
    }
    v.sort();
    v.dedup();
    v
}

pub fn version_targets(quick: bool) -> Vec<u32> {
    let m = u32::MAX;
    let mut v = vec![0, 1, 2, 3, 99, 100, 101, m / 3, m / 3 + 1, (1 << 31) - 1, 1 << 31, m / 3 * 2 + 1, m];
    for k in [8u32, 16] {
        v.extend([1u32 << k, (1u32 << k) + 2]);
    }
    if !quick {
        v.extend([4, 5, 7, 50, 1000, 65535, 65536, m / 2, m - 1]);
        for k in [15u32, 24, 30] {
            v.extend([(1u32 << k) - 1, 1u32 << k, (1u32 << k) + 2]);
        }
    }
    v.sort();
    v.dedup();
    v
}

fn measures_around(t: i128, max: i128) -> Vec<i128> {
    // around the thresholds of this target, and a few absolute values (the thresholds of small
    // targets: what a folded large target would behave like)
    let mut v = vec![0, 1, t - 1, t, t + 1, 3 * t / 2 - 1, 3 * t / 2, 3 * t / 2 + 1, 2 * t, max, 2, 3, 14, 15, 21, 22, 100, 150, 300, 1000];
    v.retain(|x| *x >= 0 && *x <= max);
    v.sort();
    v.dedup();
    v
}

fn urg_str(u: Urg) -> &'static str {
    match u {
        Urg::None => "none",
        Urg::Low => "low",
        Urg::High => "high",
    }
}

/// One configuration, all measures, one backend. Returns (cases, findings, distinct outcomes).
fn sweep_config(mk_storage: &dyn Fn() -> Arc<dyn Storage>, backend: &str, cfg: Config, seq: &mut u64, seed: u64) -> (u64, Vec<Value>, Vec<(i64, u64, Option<Urg>)>) {
    let mk_server = |st: &Arc<dyn Storage>| {
        Server::new(
            ServerConfig {
                snapshot_days: cfg.days,
                snapshot_versions: cfg.versions,
            },
            Inst::plain(st.clone()),
        )
    };
    let mut storage = mk_storage();
    let mut server = mk_server(&storage);
    let mut findings = vec![];
    let mut cases = 0u64;
    let mut grid: Vec<(i64, u64, Option<Urg>)> = vec![];
    let days: Vec<i64> = measures_around(cfg.days as i128, MAX_DAYS as i128).into_iter().map(|x| x as i64).collect();
    // the counter is swept to u32::MAX - 1: both backends increment it (DESIGN.md 3.7)
    let sinces: Vec<u64> = measures_around(cfg.versions as i128, (u32::MAX - 1) as i128).into_iter().map(|x| x as u64).collect();
    // no snapshot at all => high
    // a snapshot is "d days old" for a whole day: early in it and late in it
    let offsets: [i64; 2] = [3600, 86_340];
    let mut all: Vec<(Option<(i64, u64)>, i64)> = vec![(None, 0)];
    for d in &days {
        for s in &sinces {
            for o in offsets {
                all.push((Some((*d, *s)), o));
            }
        }
    }
    for (case, offset) in all {
        cases += 1;
        *seq += 1;
        let c = det_uuid(seed, 7, *seq);
        let v0 = det_uuid(seed, 8, *seq);
        let st2 = storage.clone();
        let setup = std::panic::catch_unwind(std::panic::AssertUnwindSafe(|| -> anyhow::Result<()> {
            let storage = st2;
            let mut txn = storage.txn(c)?;
            txn.new_client(Uuid::nil())?;
            txn.add_version(v0, Uuid::nil(), b"x".to_vec())?;
            if let Some((d, s)) = case {
                txn.set_snapshot(
                    Snapshot {
                        version_id: v0,
                        timestamp: Utc::now() - Duration::days(d) - Duration::seconds(offset),
                        versions_since: s as u32,
                    },
                    b"snap".to_vec(),
                )?;
            }
            txn.commit()?;
            Ok(())
        }));
        let setup = match setup {
            Ok(r) => r,
            Err(e) => Err(anyhow::anyhow!("panic: {}", crate::sut::panic_msg(e))),
        };
        if let Err(e) = setup {
            findings.push(json!({"class": "setup", "backend": backend, "config": [cfg.days, cfg.versions], "case": format!("{case:?}"), "msg": format!("cannot install snapshot record: {e:#}")}));
            continue;
        }
        let r = lib_call(
            &server,
            &Req::AddVersion {
                c,
                parent: v0,
                data: b"y".to_vec(),
            },
        );
        let want = urgency(cfg, case);
        let (d, s) = case.unwrap_or((-1, 0));
        match r {
            Resp::AvOk { urgency: got, .. } => {
                grid.push((d, s, Some(got)));
                if !want.contains(got) {
                    findings.push(json!({"class": "wrong-urgency", "backend": backend, "config": [cfg.days, cfg.versions], "days": d, "since": s,
                        "msg": format!("targets (days={}, versions={}), snapshot {} days and {} s old with {} versions since: server answered urgency={}, the property requires {:?}",
                            cfg.days, cfg.versions, d, offset, s, urg_str(got), want)}));
                }
            }
            Resp::Panic(m) => {
                grid.push((d, s, None));
                // a panic inside a request can leave the in-memory backend's lock poisoned: start
                // the next case from a fresh storage object
                storage = mk_storage();
                server = mk_server(&storage);
                findings.push(json!({"class": "panic", "backend": backend, "config": [cfg.days, cfg.versions], "days": d, "since": s,
                    "msg": format!("targets (days={}, versions={}): AddVersion panicked ({m}) for a snapshot {d} days old with {s} versions since", cfg.days, cfg.versions)}));
            }
            other => {
                grid.push((d, s, None));
                findings.push(json!({"class": "not-accepted", "backend": backend, "config": [cfg.days, cfg.versions], "days": d, "since": s,
                    "msg": format!("AddVersion on the latest version answered {:?}", other)}));
            }
        }
    }
    // monotone in each measure over the swept grid
    for (d1, s1, u1) in &grid {
        for (d2, s2, u2) in &grid {
            if *d1 < 0 || *d2 < 0 {
                continue;
            }
            if let (Some(u1), Some(u2)) = (u1, u2) {
                if d1 <= d2 && s1 <= s2 && u1 > u2 {
                    findings.push(json!({"class": "not-monotone", "backend": backend, "config": [cfg.days, cfg.versions], "days": d2, "since": s2,
                        "msg": format!("targets (days={}, versions={}): urgency {} at (days {d1}, since {s1}) but only {} at the larger (days {d2}, since {s2})", cfg.days, cfg.versions, urg_str(*u1), urg_str(*u2))}));
                }
            }
        }
    }
    (cases, findings, grid)
}

/// Worker entry: task = {"days":D,"versions":V}; both backends.
pub fn worker_main() {
    crate::pool::serve(|pv| {
        let seed = pv["seed"].as_u64().unwrap_or(1);
        let scratch = Scratch::new("sweep");
        let dir = scratch.path().to_path_buf();
        let mut seq = (std::process::id() as u64) << 32;
        move |task: &Value| -> Value {
            let _keep = &scratch;
            let cfg = Config {
                days: task["days"].as_i64().unwrap(),
                versions: task["versions"].as_u64().unwrap() as u32,
            };
            let (n1, f1, g1) = sweep_config(&|| Arc::new(InMemoryStorage::new()) as Arc<dyn Storage>, "in-memory", cfg, &mut seq, seed);
            let d2 = dir.clone();
            let (n2, f2, g2) = sweep_config(&move || Arc::new(SqliteStorage::new(&d2).expect("sqlite")) as Arc<dyn Storage>, "sqlite", cfg, &mut seq, seed);
            let mut f = f1;
            f.extend(f2);
            // backends agree
            let mut disagree = 0;
            for (a, b) in g1.iter().zip(g2.iter()) {
                if a != b {
                    disagree += 1;
                }
            }
            let outcomes: std::collections::BTreeSet<String> = g1.iter().chain(g2.iter()).map(|(_, _, u)| u.map(urg_str).unwrap_or("failed").to_string()).collect();
            json!({"cases": n1 + n2, "findings": f, "backend_disagreements": disagree, "outcomes": outcomes.into_iter().collect::<Vec<_>>(),
                   "sample": g1.iter().take(3).map(|(d, s, u)| json!({"days": d, "since": s, "urgency": u.map(urg_str)})).collect::<Vec<_>>()})
        }
    });
}
