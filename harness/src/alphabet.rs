//! Symbolic alphabet of request histories (DESIGN.md 3.2) and its resolution against the
//! reference model's current state.

use crate::model::{Cid, MResp, Model, Sid, SnapDecision, NIL};
use crate::sut::SymOp;
use serde_json::{json, Value};

#[derive(Clone, Debug, PartialEq, Eq, Hash, PartialOrd, Ord)]
pub enum IdClass {
    Nil,
    Latest,
    /// k-th ancestor of latest, k >= 1
    Anc(u8),
    /// parent of the first accepted version (only offered when non-nil)
    Base,
    /// an id never seen before
    Fresh,
    /// the current snapshot version
    SnapV,
    /// an id resolved in another client
    Foreign(Cid, Box<IdClass>),
}

impl IdClass {
    pub fn show(&self) -> String {
        match self {
            IdClass::Nil => "nil".into(),
            IdClass::Latest => "latest".into(),
            IdClass::Anc(k) => format!("anc{k}"),
            IdClass::Base => "base".into(),
            IdClass::Fresh => "fresh".into(),
            IdClass::SnapV => "snapv".into(),
            IdClass::Foreign(c, x) => format!("foreign({},{})", (b'A' + *c) as char, x.show()),
        }
    }
    pub fn parse(s: &str) -> Option<IdClass> {
        Some(match s {
            "nil" => IdClass::Nil,
            "latest" => IdClass::Latest,
            "base" => IdClass::Base,
            "fresh" => IdClass::Fresh,
            "snapv" => IdClass::SnapV,
            _ => {
                if let Some(k) = s.strip_prefix("anc") {
                    IdClass::Anc(k.parse().ok()?)
                } else if let Some(r) = s.strip_prefix("foreign(") {
                    let r = r.strip_suffix(')')?;
                    let (c, x) = r.split_once(',')?;
                    let c = c.bytes().next()? - b'A';
                    IdClass::Foreign(c, Box::new(IdClass::parse(x)?))
                } else {
                    return None;
                }
            }
        })
    }
}

#[derive(Clone, Copy, Debug, PartialEq, Eq, Hash, PartialOrd, Ord)]
pub enum Pay {
    /// bytes unique to this position of the history
    Unique,
    /// the same bytes every time
    Dup,
    /// 300 KB (beyond every default body limit of the web framework; several overflow pages)
    Big,
    /// exactly the 100 MiB limit: above every size threshold anybody could have put below it
    Huge,
}

#[derive(Clone, Debug, PartialEq, Eq, Hash, PartialOrd, Ord)]
pub enum AOp {
    AddVersion { c: Cid, id: IdClass, pay: Pay },
    AddSnapshot { c: Cid, id: IdClass, pay: Pay },
    Age { c: Cid, days: i64 },
}

impl AOp {
    pub fn show(&self) -> String {
        let cn = |c: &Cid| (b'A' + *c) as char;
        let pn = |p: &Pay| match p {
            Pay::Dup => ",dup",
            Pay::Big => ",big",
            Pay::Huge => ",huge",
            Pay::Unique => "",
        };
        match self {
            AOp::AddVersion { c, id, pay } => {
                format!("AddVersion({},{}{})", cn(c), id.show(), pn(pay))
            }
            AOp::AddSnapshot { c, id, pay } => {
                format!("AddSnapshot({},{}{})", cn(c), id.show(), pn(pay))
            }
            AOp::Age { c, days } => format!("Age({},{})", cn(c), days),
        }
    }
    pub fn client(&self) -> Cid {
        match self {
            AOp::AddVersion { c, .. } | AOp::AddSnapshot { c, .. } | AOp::Age { c, .. } => *c,
        }
    }
    pub fn to_json(&self) -> Value {
        json!(self.show())
    }
    pub fn parse(s: &str) -> Option<AOp> {
        let (name, rest) = s.split_once('(')?;
        let rest = rest.strip_suffix(')')?;
        // split on top-level commas
        let mut parts = vec![];
        let mut depth = 0;
        let mut cur = String::new();
        for ch in rest.chars() {
            match ch {
                '(' => {
                    depth += 1;
                    cur.push(ch)
                }
                ')' => {
                    depth -= 1;
                    cur.push(ch)
                }
                ',' if depth == 0 => {
                    parts.push(std::mem::take(&mut cur));
                }
                _ => cur.push(ch),
            }
        }
        parts.push(cur);
        let c = parts.first()?.bytes().next()? - b'A';
        match name {
            "AddVersion" | "AddSnapshot" => {
                let id = IdClass::parse(parts.get(1)?)?;
                let pay = match parts.get(2).map(|s| s.as_str()) {
                    Some("dup") => Pay::Dup,
                    Some("big") => Pay::Big,
                    Some("huge") => Pay::Huge,
                    _ => Pay::Unique,
                };
                Some(if name == "AddVersion" {
                    AOp::AddVersion { c, id, pay }
                } else {
                    AOp::AddSnapshot { c, id, pay }
                })
            }
            "Age" => Some(AOp::Age {
                c,
                days: parts.get(1)?.parse().ok()?,
            }),
            _ => None,
        }
    }
}

pub const DUP_BYTES: &[u8] = b"DUP-PAYLOAD";
/// the servers' body limit (server/src/api/add_version.rs MAX_SIZE)
pub const HUGE_BYTES: usize = 100 * 1024 * 1024;

pub fn payload_bytes(kind: &str, pay: Pay, pos: usize, c: Cid) -> Vec<u8> {
    match pay {
        Pay::Dup => DUP_BYTES.to_vec(),
        Pay::Unique => format!("{kind}-{pos}-{}", (b'A' + c) as char).into_bytes(),
        Pay::Big => {
            let head = format!("{kind}-{pos}-{}-big:", (b'A' + c) as char).into_bytes();
            let mut v = head.clone();
            v.extend((0..300_000usize).map(|i| (i % 251) as u8 ^ head[i % head.len()]));
            v
        }
        Pay::Huge => {
            let head = format!("{kind}-{pos}-{}-huge:", (b'A' + c) as char).into_bytes();
            let mut v = Vec::with_capacity(HUGE_BYTES);
            v.extend_from_slice(&head);
            let mut x: u32 = 0x9E3779B9 ^ (pos as u32).wrapping_mul(2654435761);
            while v.len() < HUGE_BYTES {
                x ^= x << 13;
                x ^= x >> 17;
                x ^= x << 5;
                v.extend_from_slice(&x.to_le_bytes());
            }
            v.truncate(HUGE_BYTES);
            v
        }
    }
}

/// Resolve an id class for client `c` in the model's current state. `Fresh` allocates from the
/// model (so pass a scratch clone when only probing). None = class not applicable here.
pub fn resolve(model: &mut Model, c: Cid, id: &IdClass) -> Option<Sid> {
    match id {
        IdClass::Nil => Some(NIL),
        IdClass::Fresh => Some(model.fresh()),
        IdClass::Foreign(c2, x) => {
            if *c2 == c {
                return None;
            }
            let s = resolve(model, *c2, x)?;
            if s == NIL {
                None
            } else {
                Some(s)
            }
        }
        _ => {
            let cl = model.client(c)?;
            match id {
                IdClass::Latest => {
                    if cl.chain.is_empty() {
                        None
                    } else {
                        Some(cl.latest())
                    }
                }
                IdClass::Anc(k) => {
                    let k = *k as usize;
                    if k < cl.chain.len() {
                        cl.anc(k)
                    } else {
                        None
                    }
                }
                IdClass::Base => {
                    let b = cl.base();
                    if b == NIL {
                        None
                    } else {
                        Some(b)
                    }
                }
                IdClass::SnapV => cl.snapshot.as_ref().map(|s| s.version),
                _ => unreachable!(),
            }
        }
    }
}

#[derive(Clone, Debug)]
pub struct Alphabet {
    pub n_clients: u8,
    /// ancestors offered: anc1..anc_max
    pub anc_max: u8,
    pub foreign: bool,
    pub dup_payload: bool,
    pub snapshots: bool,
    /// AgeSnapshot targets (absolute ages, only ever increasing)
    pub ages: Vec<i64>,
    /// also offer accepted uploads with a 300 KB payload
    pub big_payload: bool,
    /// one limit-sized payload per history (offered while the model holds none)
    pub huge_payload: bool,
    /// family the client ids are drawn from (see `sut::client_uuid`)
    pub id_family: u8,
}

impl Alphabet {
    /// All id classes worth offering for client `c` (before de-duplication by resolved id).
    pub fn id_classes(&self, c: Cid) -> Vec<IdClass> {
        let mut v = vec![IdClass::Nil, IdClass::Latest];
        for k in 1..=self.anc_max {
            v.push(IdClass::Anc(k));
        }
        v.push(IdClass::Base);
        v.push(IdClass::SnapV);
        v.push(IdClass::Fresh);
        if self.foreign {
            for c2 in 0..self.n_clients {
                if c2 != c {
                    v.push(IdClass::Foreign(c2, Box::new(IdClass::Latest)));
                    v.push(IdClass::Foreign(c2, Box::new(IdClass::Anc(1))));
                    v.push(IdClass::Foreign(c2, Box::new(IdClass::SnapV)));
                    v.push(IdClass::Foreign(c2, Box::new(IdClass::Base)));
                }
            }
        }
        v
    }

    /// Distinct (by resolved id) classes for client `c` in `model`, simplest first.
    pub fn distinct_ids(&self, model: &Model, c: Cid) -> Vec<(IdClass, Sid)> {
        let mut out: Vec<(IdClass, Sid)> = vec![];
        for cls in self.id_classes(c) {
            let mut m = model.clone();
            if let Some(s) = resolve(&mut m, c, &cls) {
                if cls == IdClass::Fresh || !out.iter().any(|(_, x)| *x == s) {
                    out.push((cls, s));
                }
            }
        }
        out
    }

    /// All mutating-alphabet operations enabled in `model`.
    pub fn transitions(&self, model: &Model) -> Vec<AOp> {
        let mut out = vec![];
        for c in 0..self.n_clients {
            let ids = self.distinct_ids(model, c);
            for (cls, _sid) in &ids {
                out.push(AOp::AddVersion {
                    c,
                    id: cls.clone(),
                    pay: Pay::Unique,
                });
                // the repeated payload is offered for rejected requests too: a request that differs
                // from an earlier accepted one only in its parent must still be judged by its parent
                if self.dup_payload {
                    out.push(AOp::AddVersion {
                        c,
                        id: cls.clone(),
                        pay: Pay::Dup,
                    });
                }
                if self.big_payload && model.would_accept(c, *_sid).unwrap_or(true) {
                    out.push(AOp::AddVersion {
                        c,
                        id: cls.clone(),
                        pay: Pay::Big,
                    });
                }
                if self.huge_payload && !model.holds_huge() && model.would_accept(c, *_sid).unwrap_or(true) {
                    out.push(AOp::AddVersion {
                        c,
                        id: cls.clone(),
                        pay: Pay::Huge,
                    });
                }
            }
            if self.snapshots {
                for (cls, _sid) in &ids {
                    out.push(AOp::AddSnapshot {
                        c,
                        id: cls.clone(),
                        pay: Pay::Unique,
                    });
                    if self.dup_payload {
                        out.push(AOp::AddSnapshot {
                            c,
                            id: cls.clone(),
                            pay: Pay::Dup,
                        });
                    }
                    if self.big_payload && matches!(model.snapshot_decision(c, *_sid), Some(SnapDecision::Replace)) {
                        out.push(AOp::AddSnapshot {
                            c,
                            id: cls.clone(),
                            pay: Pay::Big,
                        });
                    }
                    if self.huge_payload && !model.holds_huge() && matches!(model.snapshot_decision(c, *_sid), Some(SnapDecision::Replace)) {
                        out.push(AOp::AddSnapshot {
                            c,
                            id: cls.clone(),
                            pay: Pay::Huge,
                        });
                    }
                }
            }
            if let Some(s) = model.client(c).and_then(|cl| cl.snapshot.as_ref()) {
                for &d in &self.ages {
                    if d > s.age_days {
                        out.push(AOp::Age { c, days: d });
                    }
                }
            }
        }
        out
    }
}

/// Turn an alphabet-level operation into a concrete-sid operation, allocating fresh ids from
/// `model` (which is advanced accordingly). None = not applicable in this state.
pub fn to_symop(model: &mut Model, aop: &AOp, pos: usize) -> Option<SymOp> {
    Some(match aop {
        AOp::AddVersion { c, id, pay } => SymOp::AddVersion {
            c: *c,
            parent: resolve(model, *c, id)?,
            data: payload_bytes("seg", *pay, pos, *c),
        },
        AOp::AddSnapshot { c, id, pay } => SymOp::AddSnapshot {
            c: *c,
            v: resolve(model, *c, id)?,
            data: payload_bytes("snap", *pay, pos, *c),
        },
        AOp::Age { c, days } => SymOp::AgeSnapshot { c: *c, days: *days },
    })
}

/// Expected outcome of a mutating-alphabet operation. For AddSnapshot the decision may be
/// `Either`; the caller applies the observed outcome with `Model::add_snapshot_apply`.
pub enum Expect {
    Resp(MResp),
    Snapshot(Option<SnapDecision>),
    Done,
}

/// Apply `sop` to the model (HTTP semantics for unknown clients on AddVersion: created).
/// For AddSnapshot nothing is applied yet.
pub fn model_step(model: &mut Model, sop: &SymOp) -> Expect {
    match sop {
        SymOp::AddVersion { c, parent, data } => {
            Expect::Resp(model.add_version(*c, *parent, data, true))
        }
        SymOp::AddSnapshot { c, v, .. } => Expect::Snapshot(model.snapshot_decision(*c, *v)),
        SymOp::AgeSnapshot { c, days } => {
            model.age_snapshot(*c, *days);
            Expect::Done
        }
        SymOp::GetChild { c, parent } => Expect::Resp(model.get_child(*c, *parent)),
        SymOp::GetSnapshot { c } => Expect::Resp(model.get_snapshot(*c)),
        SymOp::Reopen => Expect::Done,
    }
}

/// Canonical form of the model state: ids and payloads renamed in order of first appearance.
pub fn canon(model: &Model) -> String {
    use std::collections::HashMap;
    let mut ids: HashMap<Sid, usize> = HashMap::new();
    ids.insert(NIL, 0);
    let mut pays: HashMap<Vec<u8>, usize> = HashMap::new();
    let mut s = String::new();
    fn idn(ids: &mut std::collections::HashMap<Sid, usize>, x: Sid) -> usize {
        let n = ids.len();
        *ids.entry(x).or_insert(n)
    }
    fn payn(p: &mut std::collections::HashMap<Vec<u8>, usize>, x: &[u8]) -> usize {
        let n = p.len();
        *p.entry(x.to_vec()).or_insert(n)
    }
    for (c, cl) in &model.clients {
        s.push_str(&format!("[{c}:"));
        for v in &cl.chain {
            let p = idn(&mut ids, v.parent);
            let i = idn(&mut ids, v.id);
            let d = payn(&mut pays, &v.data);
            s.push_str(&format!("{p}>{i}/{d},"));
        }
        if let Some(sn) = &cl.snapshot {
            let i = idn(&mut ids, sn.version);
            let d = payn(&mut pays, &sn.data);
            s.push_str(&format!("|S{i}/{d}/n{}/a{}", sn.since, sn.age_days));
        }
        s.push(']');
    }
    s
}
