//! E-CORPUS — C19: databases written by the pinned release stay readable (DESIGN.md 5/C19).
//!
//! `gen-corpus` (run once, by tools/gen_corpus.sh, with this harness built against a checkout of
//! the pinned commit) writes data directories + their expected logical content. The check opens
//! every fixture with the *current* code, compares everything stored with the expectation and
//! continues the history from there (appending to every chain, snapshots, rejected requests).

use crate::alphabet::{canon, AOp, Alphabet};
use crate::ecrash::{self, COp};
use crate::eseq::{rebuild_node, Base, Node, SeqParams, Worker};
use crate::model::{Config, Model};
use crate::sut::{client_uuid, read_dir_image, write_dir_image, DirImage, Scratch, SymSut, SymTab, DB_FILE, SQL_HTTP, SQL_LIB, SQL_LIB_REOPEN};
use crate::vfs::LogEntry;
use serde_json::{json, Value};
use std::collections::HashSet;
use std::path::{Path, PathBuf};
use uuid::Uuid;

pub fn corpus_dir() -> PathBuf {
    std::env::var("TCSS_CORPUS_DIR").map(PathBuf::from).unwrap_or_else(|_| crate::report::verif_dir().join("fixtures/pinned"))
}

/// Stored snapshot timestamps (seconds) per client, read through the storage API.
fn snapshot_times(storage: &std::sync::Arc<dyn taskchampion_sync_server_core::Storage>, seed: u64, n: u8) -> Value {
    let mut m = serde_json::Map::new();
    for c in 0..n {
        let cu = crate::sut::client_uuid(seed, c);
        if let Ok(mut txn) = storage.txn(cu) {
            if let Ok(Some(cl)) = txn.get_client() {
                if let Some(s) = cl.snapshot {
                    m.insert(c.to_string(), json!(s.timestamp.timestamp()));
                }
            }
        }
    }
    Value::Object(m)
}

const GEN_SEED: u64 = 19_19_19;
const CFG: Config = Config { days: 2, versions: 2 };

fn alpha(n: u8, anc: u8, foreign: bool, dup: bool, ages: &[i64]) -> Alphabet {
    Alphabet { n_clients: n, anc_max: anc, foreign, dup_payload: dup, snapshots: true, ages: ages.to_vec(), big_payload: false, huge_payload: false, id_family: 0 }
}

fn gen_params(a: Alphabet, depth: usize) -> SeqParams {
    SeqParams {
        alphabet: a,
        cfg: CFG,
        specs: vec![SQL_HTTP],
        max_depth: depth,
        unmerged_depth: 0,
        monitors: vec!["C01", "C02", "C07", "C08", "C10", "C11", "C12", "C18"],
        reopen_probe: false,
        solo_runs: false,
        max_states: 100000,
        wall_cap_s: 600.0,
        threads: 1,
        seed: GEN_SEED,
        reopen_subsets_up_to: 0,
    }
}

fn tab_to_json(t: &SymTab, model: &Model) -> Value {
    let mut m = serde_json::Map::new();
    let mut t2 = t.clone();
    for cl in model.clients.values() {
        for v in &cl.chain {
            m.insert(v.id.to_string(), json!(t2.uuid(v.id).to_string()));
            m.insert(v.parent.to_string(), json!(t2.uuid(v.parent).to_string()));
        }
        if let Some(s) = &cl.snapshot {
            m.insert(s.version.to_string(), json!(t2.uuid(s.version).to_string()));
        }
    }
    Value::Object(m)
}

/// Generate the corpus into `out` (run with the harness built against the pinned tree).
pub fn generate(out: &Path) -> Result<(), String> {
    let _ = std::fs::remove_dir_all(out);
    std::fs::create_dir_all(out).map_err(|e| e.to_string())?;
    let mut n = 0usize;
    let mut seen: HashSet<String> = HashSet::new();
    // ---- 1. every canonical state of the quick-bound explorations
    for (a, depth) in [(alpha(2, 2, true, true, &[]), 3usize), (alpha(1, 4, false, false, &[1]), 5)] {
        let p = gen_params(a.clone(), depth);
        let mut w = Worker::new(&p);
        let mut frontier = vec![Node { steps: vec![], model: Model::new(CFG) }];
        while let Some(node) = frontier.pop() {
            if node.steps.len() > depth {
                continue;
            }
            let key = format!("{}|{}", a.n_clients, canon(&node.model));
            let fresh = seen.insert(key);
            if fresh && !node.steps.is_empty() {
                // the files as the pinned code leaves them after this history
                let (findings, children, _st, _) = w.process(&node);
                if let Some(f) = findings.first() {
                    return Err(format!("pinned tree deviates from the model while generating ({:?}): {}", node.history(), f.msg));
                }
                // process() leaves the implementation in the node's state (restored after every transition)
                // (self-test of the checker's age arithmetic: TCSS_GEN_BACKDATE_DAYS moves every
                // snapshot into the past, as if the corpus had been generated that long ago)
                if let Some(days) = std::env::var("TCSS_GEN_BACKDATE_DAYS").ok().and_then(|x| x.parse::<i64>().ok()) {
                    w.backdate(0, days, a.n_clients);
                }
                let files = w.files_of(0);
                let tab = w.tab_of(0);
                let snap_ts = snapshot_times(&w.storage_of(0), GEN_SEED, a.n_clients);
                let d = out.join(format!("seq-{n:04}"));
                write_dir_image(&d, &files);
                let meta = json!({
                    "kind": "seq", "seed": GEN_SEED, "clients": a.n_clients, "days": CFG.days, "versions": CFG.versions,
                    "history": node.history(), "replaced": node.steps.iter().map(|s| s.replaced).collect::<Vec<_>>(),
                    "ids": tab_to_json(&tab, &node.model),
                    "snapshot_ts": snap_ts,
                });
                std::fs::write(d.join("meta.json"), serde_json::to_string_pretty(&meta).unwrap()).map_err(|e| e.to_string())?;
                n += 1;
                if node.steps.len() < depth {
                    for (_, c) in children {
                        frontier.push(c);
                    }
                }
            } else if node.steps.is_empty() {
                let (_f, children, _st, _) = w.process(&node);
                for (_, c) in children {
                    frontier.push(c);
                }
            }
        }
    }
    let nseq = n;
    // ---- 2. large payloads, and data directories left behind by a crash (with a write-ahead log)
    let hists: Vec<Vec<COp>> = vec![
        vec![COp::AvNewClient, COp::Av10k, COp::As50k, COp::AvSmall],
        vec![COp::AvSmall, COp::Av1m, COp::AsSmall],
        vec![COp::Av100k, COp::As50k, COp::AvNewClient, COp::AvNewClient],
    ];
    for hist in &hists {
        let rec = ecrash::record(hist, GEN_SEED)?;
        let known: Vec<Uuid> = rec.tab.all_uuids();
        // images: final state, plus process-crash images at the interesting points of the last two requests
        let mut fs = ecrash::FsModel::default();
        let mut images: Vec<(DirImage, String, usize)> = vec![];
        let mut acked = 0usize;
        let mut wal_synced_since_begin = false;
        let mut db_writes_since_begin = 0;
        for e in &rec.log {
            match e {
                LogEntry::Marker(m) => {
                    let (w, k) = m.split_once(' ').unwrap();
                    let k: usize = k.parse().unwrap();
                    if w == "ack" {
                        acked = k;
                    } else {
                        wal_synced_since_begin = false;
                        db_writes_since_begin = 0;
                    }
                }
                LogEntry::Call { call, rc } => {
                    let changed = fs.apply(call, *rc);
                    if !changed || acked + 2 < hist.len() {
                        continue;
                    }
                    use crate::vfs::VfsCall;
                    match call {
                        VfsCall::Sync { path, .. } if path.ends_with("-wal") && !wal_synced_since_begin => {
                            wal_synced_since_begin = true;
                            images.push((fs.process_crash_image(), "killed right after a commit reached the write-ahead log (not checkpointed)".into(), acked));
                        }
                        VfsCall::Write { path, .. } if path.ends_with(DB_FILE) => {
                            db_writes_since_begin += 1;
                            if db_writes_since_begin == 2 {
                                images.push((fs.process_crash_image(), "killed in the middle of a checkpoint".into(), acked));
                            }
                        }
                        _ => {}
                    }
                }
            }
        }
        images.push((rec.final_files.iter().filter(|(k, _)| !k.ends_with("-shm")).map(|(k, v)| (k.clone(), v.clone())).collect(), "clean shutdown".into(), hist.len()));
        for (img, descr, acked) in images {
            // what the pinned code itself recovers, which must be what the model allows
            let got = ecrash::recover(&img, GEN_SEED, &known, false).map_err(|e| format!("pinned tree cannot recover its own image ({descr}): {e}"))?;
            let exp_a = ecrash::expected_state(&rec.models[acked.min(rec.models.len() - 1)], &rec.tab);
            let exp_b = ecrash::expected_state(&rec.models[(acked + 1).min(rec.models.len() - 1)], &rec.tab);
            if got != exp_a && got != exp_b {
                return Err(format!("pinned tree recovers an unexpected state from its own image ({descr})"));
            }
            let d = out.join(format!("raw-{n:04}"));
            write_dir_image(&d, &img);
            let clients: Vec<Value> = got.clients.iter().map(|(c, (chain, snap))| json!({
                "client": c,
                "chain": chain.iter().map(|(i, p, h, l)| json!([i.to_string(), p.to_string(), format!("{h:016x}"), l])).collect::<Vec<_>>(),
                "snapshot": snap.as_ref().map(|(v, h, l)| json!([v.to_string(), format!("{h:016x}"), l])),
            })).collect();
            let meta = json!({
                "kind": "raw", "seed": GEN_SEED, "description": descr, "history": hist.iter().map(|c| c.name()).collect::<Vec<_>>(),
                "has_wal": img.keys().any(|k| k.ends_with("-wal")),
                "known_ids": known.iter().map(|u| u.to_string()).collect::<Vec<_>>(),
                "expected": clients,
            });
            std::fs::write(d.join("meta.json"), serde_json::to_string_pretty(&meta).unwrap()).map_err(|e| e.to_string())?;
            n += 1;
        }
    }
    // ---- 3. payloads of exactly the size limit (the files are highly regular: stored gzipped)
    {
        let hist = vec![COp::AvSmall, COp::AvMax, COp::AsMax, COp::AvSmall];
        let rec = ecrash::record(&hist, GEN_SEED)?;
        let known: Vec<Uuid> = rec.tab.all_uuids();
        let img: DirImage = rec.final_files.iter().filter(|(k, _)| !k.ends_with("-shm")).map(|(k, v)| (k.clone(), v.clone())).collect();
        let got = ecrash::recover(&img, GEN_SEED, &known, false).map_err(|e| format!("pinned tree cannot read its own limit-sized directory: {e}"))?;
        if got != ecrash::expected_state(rec.models.last().unwrap(), &rec.tab) {
            return Err("pinned tree reads back something else than it stored (limit-sized payloads)".into());
        }
        let d = out.join(format!("raw-{n:04}"));
        write_dir_image(&d, &img);
        for name in img.keys() {
            let st = std::process::Command::new("gzip").arg("-9").arg(d.join(name)).status().map_err(|e| format!("gzip: {e}"))?;
            if !st.success() {
                return Err("gzip failed".into());
            }
        }
        let clients: Vec<Value> = got.clients.iter().map(|(c, (chain, snap))| json!({
            "client": c,
            "chain": chain.iter().map(|(i, p, h, l)| json!([i.to_string(), p.to_string(), format!("{h:016x}"), l])).collect::<Vec<_>>(),
            "snapshot": snap.as_ref().map(|(v, h, l)| json!([v.to_string(), format!("{h:016x}"), l])),
        })).collect();
        let meta = json!({
            "kind": "raw", "seed": GEN_SEED, "description": "clean shutdown; a version and a snapshot of exactly the 100 MiB limit (files gzipped)", "history": hist.iter().map(|c| c.name()).collect::<Vec<_>>(),
            "has_wal": false, "compressed": true,
            "known_ids": known.iter().map(|u| u.to_string()).collect::<Vec<_>>(),
            "expected": clients,
        });
        std::fs::write(d.join("meta.json"), serde_json::to_string_pretty(&meta).unwrap()).map_err(|e| e.to_string())?;
        n += 1;
    }
    println!("corpus: {nseq} explored states + {} crash/large-payload directories written to {}", n - nseq, out.display());
    Ok(())
}

/// A directory as the pinned release could leave it and no sequential history can: the first
/// two uploads of a new client overlapped (defect F1 of that release: its handler created the
/// client in a transaction of its own with INSERT OR REPLACE, so the second racer reset the
/// latest pointer after the first upload had been stored) - two versions on the nil parent, both
/// acknowledged, the second one latest. Written through the pinned tree's storage API with the
/// transaction sequence its handler ran. Plus an ordinary client with a snapshot.
fn has_extra(out: &Path, tag: &str) -> bool {
    std::fs::read_dir(out).map(|rd| rd.flatten().any(|e| std::fs::read_to_string(e.path().join("meta.json")).ok().and_then(|s| serde_json::from_str::<Value>(&s).ok()).map(|m| m["extra"] == tag).unwrap_or(false))).unwrap_or(false)
}

/// A directory with long histories (1 500 versions of one client, 400 of another, snapshots on
/// the way), written through the pinned tree's storage API: what a start-up step with a count
/// or time budget meets after an upgrade.
pub fn generate_long_history(out: &Path) -> Result<(), String> {
    use taskchampion_sync_server_core::{Snapshot, Storage};
    if has_extra(out, "long-history") {
        return Ok(());
    }
    let n = std::fs::read_dir(out).map_err(|e| e.to_string())?.count();
    let d = out.join(format!("raw-{n:04}"));
    let scratch = Scratch::new("long-history");
    let dir = scratch.path().join("data");
    std::fs::create_dir_all(&dir).map_err(|e| e.to_string())?;
    let e = |x: anyhow::Error| format!("{x:#}");
    let mut known: Vec<Uuid> = vec![Uuid::nil()];
    {
        let st = taskchampion_sync_server_storage_sqlite::SqliteStorage::new(&dir).map_err(e)?;
        for (c, len) in [(0u8, 1500usize), (1u8, 400usize)] {
            let cu = client_uuid(GEN_SEED, c);
            let mut t = st.txn(cu).map_err(e)?;
            t.new_client(Uuid::nil()).map_err(e)?;
            t.commit().map_err(e)?;
            drop(t);
            let mut parent = Uuid::nil();
            for i in 0..len {
                let id = crate::sut::det_uuid(GEN_SEED, 80 + c as u64, i as u64);
                known.push(id);
                let mut t = st.txn(cu).map_err(e)?;
                t.add_version(id, parent, format!("long-{c}-{i}").into_bytes()).map_err(e)?;
                if i % 333 == 332 {
                    t.set_snapshot(Snapshot { version_id: id, timestamp: chrono::Utc::now(), versions_since: 0 }, format!("snapshot-{c}-{i}").into_bytes()).map_err(e)?;
                }
                t.commit().map_err(e)?;
                parent = id;
            }
        }
    }
    let img: DirImage = read_dir_image(&dir).into_iter().filter(|(k, _)| !k.ends_with("-shm")).collect();
    let got = ecrash::recover(&img, GEN_SEED, &known, false).map_err(|e| format!("pinned tree cannot read its own long-history directory: {e}"))?;
    if got.clients.get(&0).map(|c| c.0.len()) != Some(1500) || got.clients.get(&1).map(|c| c.0.len()) != Some(400) {
        return Err("pinned tree reads back something else than it stored (long histories)".into());
    }
    write_dir_image(&d, &img);
    let clients: Vec<Value> = got.clients.iter().map(|(c, (chain, snap))| json!({
        "client": c,
        "chain": chain.iter().map(|(i, p, h, l)| json!([i.to_string(), p.to_string(), format!("{h:016x}"), l])).collect::<Vec<_>>(),
        "snapshot": snap.as_ref().map(|(v, h, l)| json!([v.to_string(), format!("{h:016x}"), l])),
    })).collect();
    let meta = json!({
        "kind": "raw", "extra": "long-history", "seed": GEN_SEED,
        "description": "clean shutdown; long histories: 1 500 versions of one client, 400 of another, a snapshot every 333 versions",
        "history": ["1500 x AddVersion(A)", "400 x AddVersion(B)"],
        "has_wal": img.keys().any(|k| k.ends_with("-wal")),
        "known_ids": known.iter().map(|u| u.to_string()).collect::<Vec<_>>(),
        "expected": clients,
    });
    std::fs::write(d.join("meta.json"), serde_json::to_string(&meta).unwrap()).map_err(|e| e.to_string())?;
    println!("corpus: long-history directory written to {}", d.display());
    Ok(())
}

/// A directory whose payloads look like encodings (complete / trailed / truncated compressed
/// streams, bare magic numbers, armoured text), as versions and as snapshots, written through
/// the pinned tree's storage API: a later release that starts to encode what it stores, and
/// guesses from the bytes whether a stored value is encoded, meets them here.
pub fn generate_encoded_payloads(out: &Path) -> Result<(), String> {
    use taskchampion_sync_server_core::{Snapshot, Storage};
    if has_extra(out, "encoded-payloads") {
        return Ok(());
    }
    let n = std::fs::read_dir(out).map_err(|e| e.to_string())?.count();
    let d = out.join(format!("raw-{n:04}"));
    let scratch = Scratch::new("encoded-payloads");
    let dir = scratch.path().join("data");
    std::fs::create_dir_all(&dir).map_err(|e| e.to_string())?;
    let e = |x: anyhow::Error| format!("{x:#}");
    let mut known: Vec<Uuid> = vec![Uuid::nil()];
    let mut payloads: Vec<Vec<u8>> = crate::epayload::CODED.iter().map(|c| crate::epayload::gen_coded(c, GEN_SEED)).collect();
    // magic numbers followed by bytes that are no stream at all
    payloads.push([&[0x1fu8, 0x8b][..], &crate::epayload::gen("random", 60, GEN_SEED)[..]].concat());
    payloads.push([&[0x78u8, 0x9c][..], &crate::epayload::gen("random", 60, GEN_SEED + 1)[..]].concat());
    payloads.push(vec![0x1f, 0x8b]);
    {
        let st = taskchampion_sync_server_storage_sqlite::SqliteStorage::new(&dir).map_err(e)?;
        for c in [0u8, 1u8] {
            let cu = client_uuid(GEN_SEED, c);
            let mut t = st.txn(cu).map_err(e)?;
            t.new_client(Uuid::nil()).map_err(e)?;
            t.commit().map_err(e)?;
            drop(t);
            let mut parent = Uuid::nil();
            // client 1 holds the same payloads in reverse order, and the other snapshot
            let order: Vec<usize> = if c == 0 { (0..payloads.len()).collect() } else { (0..payloads.len()).rev().collect() };
            for (i, &k) in order.iter().enumerate() {
                let id = crate::sut::det_uuid(GEN_SEED, 90 + c as u64, i as u64);
                known.push(id);
                let mut t = st.txn(cu).map_err(e)?;
                t.add_version(id, parent, payloads[k].clone()).map_err(e)?;
                if i + 1 == order.len() {
                    let snap = if c == 0 { crate::epayload::gen_coded("gzip", GEN_SEED) } else { crate::epayload::gen_coded("zlib+tail", GEN_SEED) };
                    t.set_snapshot(Snapshot { version_id: id, timestamp: chrono::Utc::now(), versions_since: 0 }, snap).map_err(e)?;
                }
                t.commit().map_err(e)?;
                parent = id;
            }
        }
    }
    let img: DirImage = read_dir_image(&dir).into_iter().filter(|(k, _)| !k.ends_with("-shm")).collect();
    let got = ecrash::recover(&img, GEN_SEED, &known, false).map_err(|e| format!("pinned tree cannot read its own directory of encoded-looking payloads: {e}"))?;
    if got.clients.get(&0).map(|c| c.0.len()) != Some(payloads.len()) {
        return Err("pinned tree reads back something else than it stored (encoded-looking payloads)".into());
    }
    write_dir_image(&d, &img);
    let clients: Vec<Value> = got.clients.iter().map(|(c, (chain, snap))| json!({
        "client": c,
        "chain": chain.iter().map(|(i, p, h, l)| json!([i.to_string(), p.to_string(), format!("{h:016x}"), l])).collect::<Vec<_>>(),
        "snapshot": snap.as_ref().map(|(v, h, l)| json!([v.to_string(), format!("{h:016x}"), l])),
    })).collect();
    let meta = json!({
        "kind": "raw", "extra": "encoded-payloads", "seed": GEN_SEED,
        "description": "clean shutdown; payloads and snapshots that look like encodings (zlib / gzip / deflate streams - complete, trailed, truncated -, magic numbers with and without a stream behind them, armoured text)",
        "history": [format!("{} x AddVersion(A)", payloads.len()), format!("{} x AddVersion(B)", payloads.len())],
        "has_wal": img.keys().any(|k| k.ends_with("-wal")),
        "known_ids": known.iter().map(|u| u.to_string()).collect::<Vec<_>>(),
        "expected": clients,
    });
    std::fs::write(d.join("meta.json"), serde_json::to_string(&meta).unwrap()).map_err(|e| e.to_string())?;
    println!("corpus: directory of encoded-looking payloads written to {}", d.display());
    Ok(())
}

pub fn generate_legacy_fork(out: &Path) -> Result<(), String> {
    use taskchampion_sync_server_core::{Snapshot, Storage};
    if has_extra(out, "legacy-fork") {
        return Ok(());
    }
    let n = std::fs::read_dir(out).map_err(|e| e.to_string())?.count();
    let d = out.join(format!("raw-{n:04}"));
    let scratch = Scratch::new("legacy-fork");
    let dir = scratch.path().join("data");
    std::fs::create_dir_all(&dir).map_err(|e| e.to_string())?;
    let a = client_uuid(GEN_SEED, 0);
    let b = client_uuid(GEN_SEED, 1);
    let (v1, v2, b1, b2) = (crate::sut::det_uuid(GEN_SEED, 77, 1), crate::sut::det_uuid(GEN_SEED, 77, 2), crate::sut::det_uuid(GEN_SEED, 77, 3), crate::sut::det_uuid(GEN_SEED, 77, 4));
    let e = |x: anyhow::Error| format!("{x:#}");
    {
        let st = taskchampion_sync_server_storage_sqlite::SqliteStorage::new(&dir).map_err(e)?;
        // racer 1: add_version -> NoSuchClient; new_client + commit; retry add_version + commit
        let mut t = st.txn(a).map_err(e)?;
        t.new_client(Uuid::nil()).map_err(e)?;
        t.commit().map_err(e)?;
        drop(t);
        let mut t = st.txn(a).map_err(e)?;
        t.add_version(v1, Uuid::nil(), b"first racer".to_vec()).map_err(e)?;
        t.commit().map_err(e)?;
        drop(t);
        // racer 2 had seen NoSuchClient before racer 1's new_client committed
        let mut t = st.txn(a).map_err(e)?;
        t.new_client(Uuid::nil()).map_err(e)?;
        t.commit().map_err(e)?;
        drop(t);
        let mut t = st.txn(a).map_err(e)?;
        t.add_version(v2, Uuid::nil(), b"second racer".to_vec()).map_err(e)?;
        t.commit().map_err(e)?;
        drop(t);
        // an ordinary client next to it
        let mut t = st.txn(b).map_err(e)?;
        t.new_client(Uuid::nil()).map_err(e)?;
        t.add_version(b1, Uuid::nil(), b"b-1".to_vec()).map_err(e)?;
        t.add_version(b2, b1, b"b-2".to_vec()).map_err(e)?;
        t.set_snapshot(Snapshot { version_id: b1, timestamp: chrono::Utc::now(), versions_since: 1 }, b"b-snapshot".to_vec()).map_err(e)?;
        t.commit().map_err(e)?;
    }
    let img: DirImage = read_dir_image(&dir).into_iter().filter(|(k, _)| !k.ends_with("-shm")).collect();
    write_dir_image(&d, &img);
    let meta = json!({
        "kind": "legacy-fork", "extra": "legacy-fork", "seed": GEN_SEED,
        "description": "two overlapping first uploads of a new client, both acknowledged by the pinned release (its defect F1): two versions on the nil parent, the second one latest; plus an ordinary client with a snapshot",
        "forked": {"client": a.to_string(), "latest": v2.to_string(), "versions": [[v1.to_string(), Uuid::nil().to_string(), "first racer"], [v2.to_string(), Uuid::nil().to_string(), "second racer"]]},
        "ordinary": {"client": b.to_string(), "chain": [[b1.to_string(), Uuid::nil().to_string(), "b-1"], [b2.to_string(), b1.to_string(), "b-2"]], "snapshot": [b1.to_string(), "b-snapshot"]},
    });
    std::fs::write(d.join("meta.json"), serde_json::to_string_pretty(&meta).unwrap()).map_err(|e| e.to_string())?;
    println!("corpus: legacy directory with forked first versions written to {}", d.display());
    Ok(())
}

/// The legacy directory no sequential history produces: it must open, keep every stored row,
/// serve both clients and take further versions.
fn check_legacy_fork(name: &str, meta: &Value, files: &DirImage) -> Vec<(String, String)> {
    let mut findings = vec![];
    let scratch = Scratch::new("legacy-check");
    let dir = scratch.path().join("data");
    write_dir_image(&dir, files);
    let cfg = Config { days: 14, versions: 100 };
    let mut sut = match std::panic::catch_unwind(std::panic::AssertUnwindSafe(|| crate::sut::Sut::open_dir(SQL_LIB, cfg, &dir, None, std::sync::Arc::new(crate::wrap::NoProbe)))) {
        Ok(Ok(s)) => s,
        Ok(Err(e)) => return vec![("raw|not-served".into(), format!("{name} ({}): the database does not open: {e:#}", meta["description"].as_str().unwrap_or("")))],
        Err(e) => return vec![("raw|not-served".into(), format!("{name}: opening the database panicked: {}", crate::sut::panic_msg(e)))],
    };
    let u = |v: &Value| Uuid::parse_str(v.as_str().unwrap_or("")).unwrap_or_default();
    let a = u(&meta["forked"]["client"]);
    let latest = u(&meta["forked"]["latest"]);
    let raw = crate::sut::dump_sql_raw(&dir);
    for v in meta["forked"]["versions"].as_array().cloned().unwrap_or_default().iter().chain(meta["ordinary"]["chain"].as_array().cloned().unwrap_or_default().iter()) {
        let (id, parent, data) = (u(&v[0]), u(&v[1]), v[2].as_str().unwrap_or("").as_bytes().to_vec());
        if !raw.versions.iter().any(|r| r.1 == id && r.2 == parent && r.3 == data) {
            findings.push(("raw|content-differs".into(), format!("{name}: version {id} (parent {parent}) of the directory is gone or changed after opening it with the current code")));
        }
    }
    use crate::sut::{Req, Resp};
    match sut.call(&Req::GetChild { c: a, parent: Uuid::nil() }) {
        Resp::GcFound { id, data, .. } if meta["forked"]["versions"].as_array().unwrap().iter().any(|v| u(&v[0]) == id && v[2].as_str().unwrap_or("").as_bytes() == data.as_slice()) => {}
        other => findings.push(("raw|not-served".into(), format!("{name}: GetChildVersion(nil) of the client with two first versions answered {:?}", other))),
    }
    match sut.call(&Req::AddVersion { c: a, parent: latest, data: b"after-upgrade".to_vec() }) {
        Resp::AvOk { id, .. } => match sut.call(&Req::GetChild { c: a, parent: latest }) {
            Resp::GcFound { id: i2, data, .. } if i2 == id && data == b"after-upgrade" => {}
            other => findings.push(("raw|not-served".into(), format!("{name}: the version appended after the upgrade reads back as {:?}", other))),
        },
        other => findings.push(("raw|not-served".into(), format!("{name}: AddVersion on the latest version of the legacy client answered {:?}", other))),
    }
    // the ordinary client: walk and snapshot
    let b = u(&meta["ordinary"]["client"]);
    let mut cur = Uuid::nil();
    for v in meta["ordinary"]["chain"].as_array().cloned().unwrap_or_default() {
        match sut.call(&Req::GetChild { c: b, parent: cur }) {
            Resp::GcFound { id, data, .. } if id == u(&v[0]) && data == v[2].as_str().unwrap_or("").as_bytes() => cur = id,
            other => {
                findings.push(("raw|content-differs".into(), format!("{name}: walking the ordinary client's chain at {cur} answered {:?}", other)));
                break;
            }
        }
    }
    match sut.call(&Req::GetSnapshot { c: b }) {
        Resp::GsFound { id, data } if id == u(&meta["ordinary"]["snapshot"][0]) && data == meta["ordinary"]["snapshot"][1].as_str().unwrap_or("").as_bytes() => {}
        other => findings.push(("raw|content-differs".into(), format!("{name}: GetSnapshot of the ordinary client answered {:?}", other))),
    }
    findings
}

/// Check one fixture with the current code. Returns (findings, requests/transitions done).
pub fn check_fixture(dir: &Path, depth: usize) -> (Vec<(String, String)>, u64, u64) {
    let mut findings = vec![];
    let meta: Value = match std::fs::read_to_string(dir.join("meta.json")).ok().and_then(|s| serde_json::from_str(&s).ok()) {
        Some(v) => v,
        None => return (vec![("machinery".into(), format!("unreadable meta.json in {}", dir.display()))], 0, 0),
    };
    let mut files = read_dir_image(dir);
    files.remove("meta.json");
    // regular multi-megabyte files are stored gzipped
    let gz: Vec<String> = files.keys().filter(|k| k.ends_with(".gz")).cloned().collect();
    for name in gz {
        files.remove(&name);
        match std::process::Command::new("gzip").arg("-dc").arg(dir.join(&name)).output() {
            Ok(o) if o.status.success() => {
                files.insert(name.trim_end_matches(".gz").to_string(), o.stdout);
            }
            other => return (vec![("machinery".into(), format!("cannot decompress {}: {:?}", name, other.map(|o| o.status)))], 0, 0),
        }
    }
    let seed = meta["seed"].as_u64().unwrap_or(1);
    let name = dir.file_name().unwrap().to_string_lossy().to_string();
    if meta["kind"] == "legacy-fork" {
        return (check_legacy_fork(&name, &meta, &files), 1, 8);
    }
    if meta["kind"] == "seq" {
        let cfg = Config { days: meta["days"].as_i64().unwrap_or(2), versions: meta["versions"].as_u64().unwrap_or(2) as u32 };
        let hist: Vec<AOp> = meta["history"].as_array().unwrap().iter().filter_map(|x| AOp::parse(x.as_str().unwrap())).collect();
        let replaced: Vec<Option<bool>> = meta["replaced"].as_array().unwrap().iter().map(|x| x.as_bool()).collect();
        let Some(mut node) = rebuild_node(cfg, &hist, &replaced) else {
            return (vec![("machinery".into(), format!("{name}: history does not rebuild"))], 0, 0);
        };
        // time has passed since the directory was written: the snapshots are older now
        let now = chrono::Utc::now().timestamp();
        if let Some(o) = meta["snapshot_ts"].as_object() {
            for (c, ts) in o {
                let c: u8 = c.parse().unwrap_or(0);
                if let (Some(cl), Some(ts)) = (node.model.clients.get_mut(&c), ts.as_i64()) {
                    if let Some(s) = cl.snapshot.as_mut() {
                        s.age_days = (now - ts).div_euclid(86400);
                    }
                }
            }
        }
        let mut tab = SymTab::new(seed);
        for (k, v) in meta["ids"].as_object().unwrap() {
            let sid: u32 = k.parse().unwrap();
            if sid != 0 {
                tab.bind(sid, Uuid::parse_str(v.as_str().unwrap()).unwrap());
            }
        }
        let nclients = meta["clients"].as_u64().unwrap_or(2) as u8;
        let a = if nclients == 1 { alpha(1, 4, false, false, &[1]) } else { alpha(2, 2, true, true, &[]) };
        let p = SeqParams {
            alphabet: a,
            cfg,
            specs: vec![SQL_LIB, SQL_HTTP, SQL_LIB_REOPEN],
            max_depth: hist.len() + depth,
            unmerged_depth: 0,
            monitors: vec!["C01", "C02", "C07", "C08", "C10", "C11", "C12", "C13", "C18", "C19"],
            reopen_probe: false,
            solo_runs: false,
            max_states: 100000,
            wall_cap_s: 600.0,
            threads: 1,
            seed,
            reopen_subsets_up_to: 0,
        };
        let mut w = Worker::new(&p);
        w.base = Some(Base { n: hist.len(), files, tab, model: node.model.clone() });
        let mut frontier = vec![node];
        let mut seen: HashSet<String> = HashSet::new();
        let mut states = 0u64;
        let mut transitions = 0u64;
        while let Some(nd) = frontier.pop() {
            let (f, children, st, _) = w.process(&nd);
            states += 1;
            transitions += st.impl_transitions;
            for x in f {
                findings.push((format!("{}|{}", x.monitor, x.class), format!("{name} (history of the fixture {:?}; continued with {:?}; operation {:?}) [{}] {}: {}", hist.iter().map(|h| h.show()).collect::<Vec<_>>(), &nd.history()[hist.len()..], x.op, x.sut, x.class, x.msg)));
            }
            for (k, c) in children {
                // follow every request that changed something, up to the continuation depth
                if c.steps.len() <= hist.len() + depth && c.model.clients != nd.model.clients && seen.insert(k) {
                    frontier.push(c);
                }
            }
            if frontier.len() > 5000 {
                break;
            }
        }
        (findings, states, transitions)
    } else {
        let known: Vec<Uuid> = meta["known_ids"].as_array().unwrap().iter().filter_map(|x| Uuid::parse_str(x.as_str().unwrap()).ok()).collect();
        match ecrash::recover(&files, seed, &known, true) {
            Err(e) => findings.push(("raw|not-served".into(), format!("{name} ({}): {e}", meta["description"].as_str().unwrap_or("")))),
            Ok(got) => {
                let mut exp = std::collections::BTreeMap::new();
                for c in meta["expected"].as_array().unwrap() {
                    let chain: Vec<(Uuid, Uuid, u64, usize)> = c["chain"].as_array().unwrap().iter().map(|v| (Uuid::parse_str(v[0].as_str().unwrap()).unwrap(), Uuid::parse_str(v[1].as_str().unwrap()).unwrap(), u64::from_str_radix(v[2].as_str().unwrap(), 16).unwrap(), v[3].as_u64().unwrap() as usize)).collect();
                    let snap = c["snapshot"].as_array().map(|v| (Uuid::parse_str(v[0].as_str().unwrap()).unwrap(), u64::from_str_radix(v[1].as_str().unwrap(), 16).unwrap(), v[2].as_u64().unwrap() as usize));
                    exp.insert(c["client"].as_u64().unwrap() as u8, (chain, snap));
                }
                if got.clients != exp {
                    findings.push(("raw|content-differs".into(), format!("{name} ({}): the current code reads {:?} clients / chains of {:?} versions, the directory contains chains of {:?}", meta["description"].as_str().unwrap_or(""), got.clients.len(), got.clients.values().map(|c| c.0.len()).collect::<Vec<_>>(), exp.values().map(|c| c.0.len()).collect::<Vec<_>>())));
                }
            }
        }
        (findings, 1, 4)
    }
}

pub fn worker_main() {
    crate::pool::serve(|_pv| {
        move |task: &Value| -> Value {
            let dir = PathBuf::from(task["dir"].as_str().unwrap());
            let depth = task["depth"].as_u64().unwrap_or(1) as usize;
            let r = std::panic::catch_unwind(std::panic::AssertUnwindSafe(|| check_fixture(&dir, depth)));
            match r {
                Ok((f, s, t)) => json!({"states": s, "transitions": t, "findings": f.iter().map(|(c, m)| json!({"class": c, "msg": m})).collect::<Vec<_>>()}),
                Err(e) => json!({"error": format!("corpus worker panicked on {}: {}", dir.display(), crate::sut::panic_msg(e))}),
            }
        }
    });
}

#[allow(dead_code)]
fn _unused(_: Scratch, _: SymSut) {}
