//! Controlled scheduler for real OS threads (DESIGN.md 4.3): exactly one registered thread
//! runs at a time; every switch happens at a scheduling point and is decided by the explorer.
//! Blocking is observed, not modelled: a thread that finds a lock busy reports `blocked` and is
//! not enabled again before a matching release event.

use std::cell::Cell;
use std::sync::{Arc, Condvar, Mutex, RwLock};

thread_local! {
    static TID: Cell<Option<usize>> = const { Cell::new(None) };
}

pub fn set_tid(t: Option<usize>) {
    TID.with(|c| c.set(t));
}
pub fn tid() -> Option<usize> {
    TID.with(|c| c.get())
}

/// What the hooks (storage probe, VFS, in-memory mutex) need from a scheduler. Implemented by
/// the in-process `Sched` and by `RemoteSched` (an agent process talking to a coordinator).
pub trait SchedApi: Send + Sync {
    fn point(&self, label: &str);
    fn blocked(&self, on: WaitOn, label: &str);
    fn release(&self, what: WaitOn);
}

static GLOBAL: RwLock<Option<Arc<dyn SchedApi>>> = RwLock::new(None);

pub fn set_global(s: Option<Arc<dyn SchedApi>>) {
    *GLOBAL.write().unwrap() = s;
}
pub fn global() -> Option<Arc<dyn SchedApi>> {
    GLOBAL.read().unwrap().clone()
}

impl WaitOn {
    pub fn to_json(&self) -> serde_json::Value {
        match self {
            WaitOn::MemMutex => serde_json::json!("mem"),
            WaitOn::Shm { offset, n } => serde_json::json!({"shm": [offset, n]}),
            WaitOn::File => serde_json::json!("file"),
            WaitOn::Any => serde_json::json!("any"),
        }
    }
    pub fn from_json(v: &serde_json::Value) -> WaitOn {
        if let Some(a) = v["shm"].as_array() {
            return WaitOn::Shm { offset: a[0].as_i64().unwrap_or(0) as i32, n: a[1].as_i64().unwrap_or(1) as i32 };
        }
        match v.as_str() {
            Some("mem") => WaitOn::MemMutex,
            Some("file") => WaitOn::File,
            _ => WaitOn::Any,
        }
    }
}

/// Scheduler proxy inside an agent process: every call becomes a line to the coordinator;
/// `point` and `blocked` wait for its "go".
pub struct RemoteSched {
    pub io: Mutex<(std::io::Stdout, std::io::Stdin)>,
}

impl RemoteSched {
    fn send(&self, v: serde_json::Value, wait: bool) {
        use std::io::{BufRead, Write};
        let g = self.io.lock().unwrap();
        let mut out = g.0.lock();
        let _ = writeln!(out, "{}", v);
        let _ = out.flush();
        drop(out);
        if wait {
            let mut line = String::new();
            let _ = g.1.lock().read_line(&mut line);
        }
    }
}

impl SchedApi for RemoteSched {
    fn point(&self, label: &str) {
        if tid().is_none() {
            return;
        }
        self.send(serde_json::json!({"ev": "point", "label": label}), true);
    }
    fn blocked(&self, on: WaitOn, label: &str) {
        if tid().is_none() {
            return;
        }
        self.send(serde_json::json!({"ev": "blocked", "on": on.to_json(), "label": label}), true);
    }
    fn release(&self, what: WaitOn) {
        if tid().is_none() {
            return;
        }
        self.send(serde_json::json!({"ev": "release", "what": what.to_json()}), false);
    }
}

impl SchedApi for Sched {
    fn point(&self, label: &str) {
        Sched::point(self, label)
    }
    fn blocked(&self, on: WaitOn, label: &str) {
        Sched::blocked(self, on, label)
    }
    fn release(&self, what: WaitOn) {
        Sched::release(self, what)
    }
}

/// What a blocked thread is waiting for.
#[derive(Clone, Debug, PartialEq, Eq)]
pub enum WaitOn {
    /// the in-memory backend's mutex
    MemMutex,
    /// a SQLite shared-memory lock range
    Shm { offset: i32, n: i32 },
    /// a SQLite file lock
    File,
    /// unknown: any release wakes
    Any,
}

impl WaitOn {
    fn woken_by(&self, rel: &WaitOn) -> bool {
        match (self, rel) {
            (WaitOn::Any, _) | (_, WaitOn::Any) => true,
            (WaitOn::MemMutex, WaitOn::MemMutex) => true,
            (WaitOn::Shm { offset: o1, n: n1 }, WaitOn::Shm { offset: o2, n: n2 }) => o1 < &(o2 + n2) && o2 < &(o1 + n1),
            (WaitOn::File, WaitOn::File) => true,
            // closing a connection releases its shm locks too
            (WaitOn::Shm { .. }, WaitOn::File) => true,
            _ => false,
        }
    }
}

#[derive(Clone, Debug, PartialEq, Eq)]
enum Status {
    Runnable,
    Blocked(WaitOn),
    Finished,
}

#[derive(Clone, Debug)]
pub struct ChoicePoint {
    /// enabled threads in canonical order (running thread first if enabled, then ascending)
    pub enabled: Vec<usize>,
    pub chosen: usize,
    /// the thread that reached the point was itself still enabled (switching away = preemption)
    pub running_enabled: bool,
    pub label: String,
    pub by: usize,
}

struct Inner {
    current: Option<usize>,
    status: Vec<Status>,
    prefix: Vec<usize>,
    trace: Vec<ChoicePoint>,
    steps: usize,
    horizon: usize,
    abort: Option<String>,
    stalls: usize,
    /// (thread, label) of every scheduling event, for replay-divergence checks and reports
    events: Vec<(usize, String)>,
}

pub struct Sched {
    inner: Mutex<Inner>,
    cv: Condvar,
}

pub struct RunResult {
    pub trace: Vec<ChoicePoint>,
    pub events: Vec<(usize, String)>,
    pub abort: Option<String>,
}

impl Sched {
    pub fn new(nthreads: usize, prefix: Vec<usize>, horizon: usize) -> Arc<Sched> {
        Arc::new(Sched {
            inner: Mutex::new(Inner {
                current: None,
                status: vec![Status::Runnable; nthreads],
                prefix,
                trace: vec![],
                steps: 0,
                horizon,
                abort: None,
                stalls: 0,
                events: vec![],
            }),
            cv: Condvar::new(),
        })
    }

    fn choose(g: &mut Inner, by: usize, by_enabled: bool, label: &str) -> Option<usize> {
        let mut enabled: Vec<usize> = vec![];
        if by_enabled {
            enabled.push(by);
        }
        for (t, s) in g.status.iter().enumerate() {
            if t != by && *s == Status::Runnable {
                enabled.push(t);
            }
        }
        if enabled.is_empty() {
            return None;
        }
        let idx = g.trace.len();
        let choice = if idx < g.prefix.len() { g.prefix[idx] } else { 0 };
        if choice >= enabled.len() {
            g.abort = Some(format!("replay divergence: choice {choice} of {} enabled at point {idx} ({label})", enabled.len()));
            return Some(enabled[0]);
        }
        g.trace.push(ChoicePoint { enabled: enabled.clone(), chosen: choice, running_enabled: by_enabled, label: label.to_string(), by });
        Some(enabled[choice])
    }

    fn wait_turn<'a>(&'a self, mut g: std::sync::MutexGuard<'a, Inner>, me: usize) -> std::sync::MutexGuard<'a, Inner> {
        while g.current != Some(me) && g.abort.is_none() {
            g = self.cv.wait(g).unwrap();
        }
        g
    }

    /// First call of a worker thread: wait until scheduled.
    pub fn start(&self, me: usize) {
        let g = self.inner.lock().unwrap();
        let _g = self.wait_turn(g, me);
    }

    /// Controller: hand the baton to the first thread (a choice point like any other).
    pub fn kickoff(&self) {
        let mut g = self.inner.lock().unwrap();
        // "by" = a pseudo thread that is not enabled
        let n = g.status.len();
        let next = Self::choose(&mut g, n, false, "start");
        g.current = next;
        self.cv.notify_all();
    }

    /// A scheduling point reached by the running thread.
    pub fn point(&self, label: &str) {
        let Some(me) = tid() else { return };
        let mut g = self.inner.lock().unwrap();
        if g.abort.is_some() {
            return;
        }
        g.steps += 1;
        g.events.push((me, label.to_string()));
        if g.steps > g.horizon {
            g.abort = Some(format!("horizon of {} scheduling steps exceeded (livelock?)", g.horizon));
            self.cv.notify_all();
            return;
        }
        let next = Self::choose(&mut g, me, true, label).unwrap();
        if next != me {
            g.current = Some(next);
            self.cv.notify_all();
            let _g = self.wait_turn(g, me);
        }
    }

    /// The running thread found a lock busy. Returns when it is worth retrying.
    pub fn blocked(&self, on: WaitOn, label: &str) {
        let Some(me) = tid() else { return };
        let mut g = self.inner.lock().unwrap();
        if g.abort.is_some() {
            return;
        }
        g.steps += 1;
        g.events.push((me, format!("blocked:{label}")));
        if g.steps > g.horizon {
            g.abort = Some(format!("horizon of {} scheduling steps exceeded (livelock?)", g.horizon));
            self.cv.notify_all();
            return;
        }
        g.status[me] = Status::Blocked(on.clone());
        match Self::choose(&mut g, me, false, &format!("blocked:{label}")) {
            Some(next) => {
                g.stalls = 0;
                g.current = Some(next);
                self.cv.notify_all();
                let _g = self.wait_turn(g, me);
            }
            None => {
                // nobody else can run
                if on == WaitOn::MemMutex {
                    g.abort = Some("deadlock: every thread is waiting for the in-memory storage lock".into());
                    self.cv.notify_all();
                    return;
                }
                // SQLite: let the busy handler burn its budget; it ends with `database is locked`
                g.stalls += 1;
                g.status[me] = Status::Runnable;
            }
        }
    }

    /// A lock was released by the running thread: wake matching waiters (no switch here).
    pub fn release(&self, what: WaitOn) {
        if tid().is_none() {
            return;
        }
        let mut g = self.inner.lock().unwrap();
        for s in g.status.iter_mut() {
            if let Status::Blocked(on) = s {
                if on.woken_by(&what) {
                    *s = Status::Runnable;
                }
            }
        }
    }

    pub fn finish(&self) {
        let Some(me) = tid() else { return };
        let mut g = self.inner.lock().unwrap();
        g.status[me] = Status::Finished;
        g.events.push((me, "finish".into()));
        if g.abort.is_some() {
            self.cv.notify_all();
            return;
        }
        // anything still blocked gets another try once nobody else can run
        if !g.status.iter().any(|s| *s == Status::Runnable) {
            for s in g.status.iter_mut() {
                if matches!(s, Status::Blocked(_)) {
                    *s = Status::Runnable;
                }
            }
        }
        let next = Self::choose(&mut g, me, false, "finish");
        g.current = next;
        self.cv.notify_all();
    }

    /// Controller: wait until every thread has finished.
    pub fn wait_all(&self) -> RunResult {
        let mut g = self.inner.lock().unwrap();
        loop {
            if g.status.iter().all(|s| *s == Status::Finished) {
                break;
            }
            let (g2, to) = self.cv.wait_timeout(g, std::time::Duration::from_secs(20)).unwrap();
            g = g2;
            if to.timed_out() && !g.status.iter().all(|s| *s == Status::Finished) {
                if g.abort.is_none() {
                    g.abort = Some("scheduler stalled for 20 s (a thread blocked outside the scheduler's view)".into());
                }
                self.cv.notify_all();
                // give free-running threads a moment to finish
                let (g3, _) = self.cv.wait_timeout(g, std::time::Duration::from_secs(5)).unwrap();
                g = g3;
                break;
            }
        }
        RunResult { trace: g.trace.clone(), events: g.events.clone(), abort: g.abort.clone() }
    }
}

/// Number of preemptions in a trace prefix [0, upto).
pub fn preemptions(trace: &[ChoicePoint], upto: usize) -> usize {
    trace[..upto].iter().filter(|p| p.running_enabled && p.chosen != 0).count()
}
