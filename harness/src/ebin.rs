//! E-BIN — C17: the real executable honours flags and environment (DESIGN.md 5/C17).
//!
//! The binary built from /repo's working tree (hooks off) is launched for every configuration
//! of the product; a scripted protocol session runs over real TCP on every listen address; the
//! snapshot's age is advanced by editing the database from outside; the process is killed with
//! SIGKILL and restarted on the same directory.

use crate::http::RawHttp;
use crate::model::{urgency, Config, Urg};
use crate::sut::{det_uuid, Scratch, DB_FILE};
use serde_json::{json, Value};
use std::io::{Read, Write};
use std::net::{TcpListener, TcpStream, ToSocketAddrs};
use std::path::{Path, PathBuf};
use std::process::{Child, Command, Stdio};
use std::sync::atomic::AtomicU64;
use std::time::{Duration, Instant};
use uuid::Uuid;

pub fn server_binary() -> PathBuf {
    std::env::var("TCSS_SERVER_BIN").map(PathBuf::from).unwrap_or_else(|_| crate::report::verif_dir().join("target/repo-bin/release/taskchampion-sync-server"))
}

#[derive(Clone, Copy, Debug, PartialEq, Eq)]
pub enum Via {
    Flag,
    /// one flag occurrence with a comma-separated list (where the option is a list)
    FlagComma,
    Env,
}

#[derive(Clone, Debug)]
pub struct Launch {
    /// address kinds: "v4", "v6", "localhost"
    pub listen: Vec<String>,
    pub listen_via: Via,
    pub data_via: Via,
    pub allow: usize,
    pub allow_via: Via,
    pub versions: Option<u32>,
    pub versions_via: Via,
    pub days: Option<i64>,
    pub days_via: Via,
    /// started with RUST_LOG=info (what README and docker-compose recommend) instead of unset
    pub log: bool,
}

impl Launch {
    pub fn to_json(&self) -> Value {
        let v = |x: Via| match x {
            Via::Flag => "flag",
            Via::FlagComma => "flag-comma-list",
            Via::Env => "env",
        };
        json!({"listen": self.listen, "listen_via": v(self.listen_via), "data_dir_via": v(self.data_via), "allow_list": self.allow, "allow_via": v(self.allow_via),
               "snapshot_versions": self.versions, "versions_via": v(self.versions_via), "snapshot_days": self.days, "days_via": v(self.days_via), "rust_log_info": self.log})
    }
    pub fn from_json(j: &Value) -> Launch {
        let v = |x: &Value| match x.as_str().unwrap_or("flag") {
            "env" => Via::Env,
            "flag-comma-list" => Via::FlagComma,
            _ => Via::Flag,
        };
        Launch {
            listen: j["listen"].as_array().map(|a| a.iter().map(|x| x.as_str().unwrap_or("v4").to_string()).collect()).unwrap_or_default(),
            listen_via: v(&j["listen_via"]),
            data_via: v(&j["data_dir_via"]),
            allow: j["allow_list"].as_u64().unwrap_or(0) as usize,
            allow_via: v(&j["allow_via"]),
            versions: j["snapshot_versions"].as_u64().map(|x| x as u32),
            versions_via: v(&j["versions_via"]),
            days: j["snapshot_days"].as_i64(),
            days_via: v(&j["days_via"]),
            log: j["rust_log_info"].as_bool().unwrap_or(false),
        }
    }
}

/// A loopback port nobody listens on. Many harness processes start servers at the same time: each
/// process draws from a range of its own (by process id), so that two of them do not pick the
/// same port between "found free" and "server bound" - with kernel-chosen ephemeral ports that
/// happened once in tens of thousands of launches, and a server that lost the race (exits with
/// "address in use" while the winner's answers are taken for its own) looked like one that died.
fn free_port(v6: bool) -> u16 {
    static NEXT: AtomicU64 = AtomicU64::new(0);
    let slot = (std::process::id() as u64) % 250;
    for _ in 0..160 {
        let k = NEXT.fetch_add(1, std::sync::atomic::Ordering::SeqCst) % 160;
        let port = (20000 + slot * 160 + k) as u16;
        let ok = if v6 { TcpListener::bind(("::1", port)).is_ok() } else { TcpListener::bind(("127.0.0.1", port)).is_ok() };
        if ok {
            return port;
        }
    }
    // the whole range is busy (cannot happen with the numbers of launches in flight): let the
    // kernel choose
    let l = if v6 { TcpListener::bind("[::1]:0") } else { TcpListener::bind("127.0.0.1:0") }.expect("bind port 0");
    l.local_addr().unwrap().port()
}

thread_local! {
    /// responses seen without `Cache-Control: no-store` (C20), collected per session
    static NO_CC: std::cell::RefCell<Vec<String>> = const { std::cell::RefCell::new(Vec::new()) };
}

/// One request over a real socket; every response is also checked for `Cache-Control`.
pub fn http(addr: &str, method: &str, path: &str, headers: &[(&str, String)], body: Option<&[u8]>, chunked: bool) -> Result<RawHttp, String> {
    let r = http_raw(addr, method, path, headers, body, chunked);
    if let Ok(raw) = &r {
        let ok = raw.headers.iter().any(|(k, v)| k == "cache-control" && String::from_utf8_lossy(v).to_ascii_lowercase().split(',').any(|t| t.trim() == "no-store"));
        if !ok {
            NO_CC.with(|c| c.borrow_mut().push(format!("{method} {path} on {addr} answered {} without Cache-Control: no-store", raw.status)));
        }
    }
    r
}

pub fn http_raw(addr: &str, method: &str, path: &str, headers: &[(&str, String)], body: Option<&[u8]>, chunked: bool) -> Result<RawHttp, String> {
    let sa = addr.to_socket_addrs().map_err(|e| format!("resolve {addr}: {e}"))?.next().ok_or("no address")?;
    let mut s = TcpStream::connect_timeout(&sa, Duration::from_secs(3)).map_err(|e| format!("connect {addr}: {e}"))?;
    s.set_read_timeout(Some(Duration::from_secs(20))).ok();
    s.set_write_timeout(Some(Duration::from_secs(20))).ok();
    let mut head = format!("{method} {path} HTTP/1.1\r\nHost: {addr}\r\nConnection: close\r\n");
    for (k, v) in headers {
        head.push_str(&format!("{k}: {v}\r\n"));
    }
    // a server may answer (and close) before the whole body was written - a refusal decided
    // from the headers alone: a failed body write is not the end, the answer is read regardless
    let mut werr: Option<String> = None;
    match body {
        Some(b) if chunked => {
            head.push_str("Transfer-Encoding: chunked\r\n\r\n");
            s.write_all(head.as_bytes()).map_err(|e| e.to_string())?;
            // uneven pieces, written separately
            let mut pos = 0;
            let mut k = 1;
            let mut w = |s: &mut TcpStream, bytes: &[u8]| {
                if werr.is_none() {
                    if let Err(e) = s.write_all(bytes) {
                        werr = Some(e.to_string());
                    }
                }
            };
            while pos < b.len() {
                let n = (k * 7 % 53 + 1).min(b.len() - pos);
                w(&mut s, format!("{n:x}\r\n").as_bytes());
                w(&mut s, &b[pos..pos + n]);
                w(&mut s, b"\r\n");
                s.flush().ok();
                pos += n;
                k += 1;
            }
            w(&mut s, b"0\r\n\r\n");
        }
        Some(b) => {
            head.push_str(&format!("Content-Length: {}\r\n\r\n", b.len()));
            s.write_all(head.as_bytes()).map_err(|e| e.to_string())?;
            // body in two writes
            let mid = b.len() / 2;
            if let Err(e) = s.write_all(&b[..mid]) {
                werr = Some(e.to_string());
            }
            s.flush().ok();
            if werr.is_none() {
                if let Err(e) = s.write_all(&b[mid..]) {
                    werr = Some(e.to_string());
                }
            }
        }
        None => {
            head.push_str("\r\n");
            s.write_all(head.as_bytes()).map_err(|e| e.to_string())?;
        }
    }
    s.flush().ok();
    let mut buf = vec![];
    // (a reset after a complete answer still leaves the answer in `buf`)
    let rerr = s.read_to_end(&mut buf).err();
    let sep = buf.windows(4).position(|w| w == b"\r\n\r\n").ok_or_else(|| format!("no header end in {} bytes (write error: {:?}, read error: {:?})", buf.len(), werr, rerr.map(|e| e.to_string())))?;
    let head = String::from_utf8_lossy(&buf[..sep]).to_string();
    let mut lines = head.split("\r\n");
    let status_line = lines.next().unwrap_or("");
    let status: u16 = status_line.split(' ').nth(1).and_then(|x| x.parse().ok()).ok_or_else(|| format!("bad status line {status_line:?}"))?;
    let mut hs = vec![];
    for l in lines {
        if let Some((k, v)) = l.split_once(':') {
            hs.push((k.trim().to_ascii_lowercase(), v.trim().as_bytes().to_vec()));
        }
    }
    let mut body = buf[sep + 4..].to_vec();
    if hs.iter().any(|(k, v)| k == "transfer-encoding" && String::from_utf8_lossy(v).contains("chunked")) {
        // de-chunk
        let mut out = vec![];
        let mut p = 0;
        loop {
            let Some(e) = body[p..].windows(2).position(|w| w == b"\r\n") else { break };
            let n = usize::from_str_radix(String::from_utf8_lossy(&body[p..p + e]).trim(), 16).unwrap_or(0);
            p += e + 2;
            if n == 0 {
                break;
            }
            out.extend_from_slice(&body[p..p + n]);
            p += n + 2;
        }
        body = out;
    }
    Ok(RawHttp { status, headers: hs, body })
}

pub struct Running {
    pub child: Child,
    pub addrs: Vec<String>,
}

impl Drop for Running {
    fn drop(&mut self) {
        let _ = self.child.kill();
        let _ = self.child.wait();
    }
}

pub struct Ids {
    pub clients: Vec<Uuid>,
}

fn start(l: &Launch, dir: &Path, addrs: &[String], ids: &Ids) -> Result<Running, String> {
    let mut cmd = Command::new(server_binary());
    cmd.env_clear();
    cmd.env("PATH", std::env::var("PATH").unwrap_or_default());
    if l.log {
        cmd.env("RUST_LOG", "info");
    }
    cmd.stdin(Stdio::null()).stdout(Stdio::null()).stderr(Stdio::null());
    // run from an empty working directory so nothing relative can end up elsewhere unnoticed
    cmd.current_dir(dir.parent().unwrap());
    match l.listen_via {
        Via::Flag => {
            for a in addrs {
                cmd.arg("--listen").arg(a);
            }
        }
        Via::FlagComma => {
            cmd.arg("--listen").arg(addrs.join(","));
        }
        Via::Env => {
            cmd.env("LISTEN", addrs.join(","));
        }
    }
    match l.data_via {
        Via::Env => {
            cmd.env("DATA_DIR", dir);
        }
        _ => {
            cmd.arg("--data-dir").arg(dir);
        }
    }
    let allowed: Vec<String> = ids.clients[..l.allow].iter().map(|u| u.to_string()).collect();
    if !allowed.is_empty() {
        match l.allow_via {
            Via::Flag => {
                for a in &allowed {
                    cmd.arg("--allow-client-id").arg(a);
                }
            }
            Via::FlagComma => {
                cmd.arg("-C").arg(allowed.join(","));
            }
            Via::Env => {
                cmd.env("CLIENT_ID", allowed.join(","));
            }
        }
    }
    if let Some(v) = l.versions {
        match l.versions_via {
            Via::Env => {
                cmd.env("SNAPSHOT_VERSIONS", v.to_string());
            }
            _ => {
                cmd.arg("--snapshot-versions").arg(v.to_string());
            }
        }
    }
    if let Some(d) = l.days {
        match l.days_via {
            Via::Env => {
                cmd.env("SNAPSHOT_DAYS", d.to_string());
            }
            _ => {
                cmd.arg("--snapshot-days").arg(d.to_string());
            }
        }
    }
    // what the server says when it gives up (an address already in use is the environment's
    // doing and is tried again by the callers, not a verdict)
    static ERRLOG_N: AtomicU64 = AtomicU64::new(0);
    let errlog = dir.parent().unwrap().join(format!("server-stderr-{}-{}.log", std::process::id(), ERRLOG_N.fetch_add(1, std::sync::atomic::Ordering::SeqCst)));
    if let Ok(f) = std::fs::File::create(&errlog) {
        cmd.stderr(Stdio::from(f));
    }
    let child = cmd.spawn().map_err(|e| format!("cannot start {}: {e}", server_binary().display()))?;
    let mut r = Running { child, addrs: addrs.to_vec() };
    let port_taken = |errlog: &Path| -> bool {
        let t = std::fs::read_to_string(errlog).unwrap_or_default().to_ascii_lowercase();
        t.contains("address already in use") || t.contains("address in use") || t.contains("addrinuse")
    };
    // wait until the first address answers (the others are checked by the session itself)
    let t0 = Instant::now();
    loop {
        if let Ok(Some(st)) = r.child.try_wait() {
            use std::os::unix::process::ExitStatusExt;
            // killed from outside (the kernel's OOM killer on a machine under memory pressure) is
            // not the server's doing
            if st.signal() == Some(9) {
                return Err(format!("server was killed from outside ({st})"));
            }
            if port_taken(&errlog) {
                return Err(format!("a listen port was taken by another process ({st})"));
            }
            return Err(format!("server exited at once with {st}"));
        }
        if http_raw(&addrs[0], "GET", "/", &[], None, false).is_ok() {
            // the answer must be our server's: one that is about to exit because somebody else
            // holds the port gets a moment to do so
            std::thread::sleep(Duration::from_millis(15));
            if let Ok(Some(st)) = r.child.try_wait() {
                return Err(if port_taken(&errlog) { format!("a listen port was taken by another process ({st})") } else { format!("server exited at once with {st}") });
            }
            return Ok(r);
        }
        if t0.elapsed() > Duration::from_secs(10) {
            return Err("server did not start answering within 10 s".into());
        }
        std::thread::sleep(Duration::from_millis(if t0.elapsed() < Duration::from_millis(100) { 4 } else { 20 }));
    }
}

/// The executable with nothing but a data directory and one loopback address (E-CRASH recovers
/// crash images through its start-up path). A start that ends at once is tried again on a fresh
/// port before it counts (another process may have taken the port in between).
pub fn start_plain(dir: &Path) -> Result<Running, String> {
    let l = Launch { listen: vec!["v4".into()], listen_via: Via::Flag, data_via: Via::Flag, allow: 0, allow_via: Via::Flag, versions: None, versions_via: Via::Flag, days: None, days_via: Via::Flag, log: false };
    let mut last = String::new();
    for _ in 0..3 {
        let addr = format!("127.0.0.1:{}", free_port(false));
        match start(&l, dir, &[addr], &Ids { clients: vec![] }) {
            Ok(r) => return Ok(r),
            Err(e) => last = e,
        }
    }
    Err(last)
}

const HS_CT: &str = "application/vnd.taskchampion.history-segment";
const SNAP_CT: &str = "application/vnd.taskchampion.snapshot";

fn urg_of(r: &RawHttp) -> Result<Urg, String> {
    match r.header_count("X-Snapshot-Request") {
        0 => Ok(Urg::None),
        1 => match r.header_str("X-Snapshot-Request").unwrap().as_str() {
            "urgency=low" => Ok(Urg::Low),
            "urgency=high" => Ok(Urg::High),
            o => Err(format!("bad X-Snapshot-Request {o:?}")),
        },
        n => Err(format!("{n} X-Snapshot-Request headers")),
    }
}

/// One configuration: launch, session, kill, restart, re-read. Returns (findings, requests).
pub fn session(l: &Launch, seed: u64) -> (Vec<(String, String)>, u64) {
    NO_CC.with(|c| c.borrow_mut().clear());
    let (mut findings, n) = session_inner(l, seed);
    for m in NO_CC.with(|c| std::mem::take(&mut *c.borrow_mut())) {
        findings.push(("no-cache-control".into(), m));
    }
    (findings, n)
}

fn session_inner(l: &Launch, seed: u64) -> (Vec<(String, String)>, u64) {
    let mut findings: Vec<(String, String)> = vec![];
    let mut nreq = 0u64;
    macro_rules! bad {
        ($class:expr, $($arg:tt)*) => { findings.push(($class.to_string(), format!($($arg)*))) };
    }
    let scratch = Scratch::new("bin");
    let dir = scratch.path().join("given-data-dir");
    let cfg = Config { days: l.days.unwrap_or(14), versions: l.versions.unwrap_or(100) };
    let ids = Ids { clients: (0..3).map(|i| det_uuid(seed, 21, i)).collect() };
    let mut run = None;
    let mut addrs = vec![];
    for attempt in 0..4 {
        addrs = l.listen.iter().map(|k| match k.as_str() {
            "v6" => format!("[::1]:{}", free_port(true)),
            "localhost" => format!("localhost:{}", free_port(false)),
            _ => format!("127.0.0.1:{}", free_port(false)),
        }).collect::<Vec<_>>();
        match start(l, &dir, &addrs, &ids) {
            Ok(r) => {
                run = Some(r);
                break;
            }
            Err(e) if attempt == 3 => {
                bad!("does-not-start", "the server does not come up with this configuration: {e}");
                return (findings, nreq);
            }
            Err(_) => {}
        }
    }
    let mut run = run.unwrap();
    // round-robin over the listen addresses so that every one serves protocol traffic
    let mut rr = 0usize;
    let mut next_addr = |addrs: &Vec<String>| {
        let a = addrs[rr % addrs.len()].clone();
        rr += 1;
        a
    };
    // ---- every address answers
    for a in &addrs {
        nreq += 1;
        match http(a, "GET", "/", &[], None, false) {
            Ok(r) if r.status == 200 => {}
            Ok(r) => bad!("address-not-served", "GET / on {a} answered {}", r.status),
            Err(e) => bad!("address-not-served", "configured listen address {a} does not answer: {e}"),
        }
    }
    // ---- data directory
    if !dir.join(DB_FILE).exists() {
        bad!("data-dir-ignored", "no database file in the configured data directory {}", dir.display());
    }
    // ---- protocol session for the served client
    let a_id = ids.clients[0];
    let cid = |u: Uuid| ("X-Client-Id", u.to_string());
    let mut latest = Uuid::nil();
    let mut chain: Vec<(Uuid, Uuid, Vec<u8>)> = vec![];
    let mut snap: Option<(i64, u64)> = None; // (age days, versions since)
    let mut snapshot_at: Option<(Uuid, Vec<u8>)> = None;
    let add_version = |findings: &mut Vec<(String, String)>, nreq: &mut u64, latest: &mut Uuid, chain: &mut Vec<(Uuid, Uuid, Vec<u8>)>, snap: &mut Option<(i64, u64)>, addr: String, chunked: bool, n: usize| {
        let payload: Vec<u8> = (0..(40 + n * 131)).map(|i| (i * 7 + n) as u8).collect();
        *nreq += 1;
        match http(&addr, "POST", &format!("/v1/client/add-version/{latest}"), &[cid(a_id), ("Content-Type", HS_CT.to_string())], Some(&payload), chunked) {
            Ok(r) if r.status == 200 => {
                let id = r.header_str("X-Version-Id").and_then(|s| Uuid::parse_str(&s).ok());
                let Some(id) = id else {
                    findings.push(("protocol".into(), format!("accepted version without X-Version-Id on {addr}")));
                    return;
                };
                let want = urgency(cfg, *snap);
                match urg_of(&r) {
                    Ok(u) if want.contains(u) => {}
                    Ok(u) => findings.push(("snapshot-targets-ignored".into(), format!("configured targets (days={}, versions={}), snapshot record {:?} (age days, versions since): server asked urgency {:?}, expected {:?}", cfg.days, cfg.versions, snap, u, want))),
                    Err(e) => findings.push(("protocol".into(), e)),
                }
                chain.push((id, *latest, payload));
                *latest = id;
                if let Some(s) = snap.as_mut() {
                    s.1 += 1;
                }
            }
            Ok(r) => findings.push(("listed-client-not-served".into(), format!("AddVersion on {addr} answered {} {}", r.status, String::from_utf8_lossy(&r.body)))),
            Err(e) => findings.push(("address-not-served".into(), format!("AddVersion on {addr}: {e}"))),
        }
    };
    // first version, then a snapshot on it
    let ad = next_addr(&addrs);
    add_version(&mut findings, &mut nreq, &mut latest, &mut chain, &mut snap, ad, false, 0);
    if !findings.is_empty() {
        return (findings, nreq);
    }
    // From here on somebody else has the database open too (an operator's sqlite3 shell, a
    // backup job): the server's connections are then never the last to close, nothing is
    // checkpointed, and at the time of the kill the acknowledged history lives in the
    // write-ahead log - which is what a restart has to recover from.
    let held = rusqlite::Connection::open(dir.join(DB_FILE)).ok().and_then(|con| {
        con.busy_timeout(Duration::from_secs(5)).ok();
        let n: Option<i64> = con.query_row("SELECT count(*) FROM clients", [], |r| r.get(0)).ok();
        n.map(|_| con)
    });
    if held.is_none() {
        bad!("machinery", "could not open a second connection to the server's database");
    }
    let sdata: Vec<u8> = (0..5000).map(|i| (i * 13) as u8).collect();
    nreq += 1;
    let ad = next_addr(&addrs);
    match http(&ad, "POST", &format!("/v1/client/add-snapshot/{latest}"), &[cid(a_id), ("Content-Type", SNAP_CT.to_string())], Some(&sdata), true) {
        Ok(r) if r.status == 200 => {
            snap = Some((0, 0));
            snapshot_at = Some((latest, sdata.clone()));
        }
        Ok(r) => bad!("listed-client-not-served", "AddSnapshot answered {}", r.status),
        Err(e) => bad!("address-not-served", "AddSnapshot on {ad}: {e}"),
    }
    // versions since the snapshot: cross both version thresholds for small targets
    // (between them another served client syncs too - first with a snapshot of its own, then
    // with versions: the targets are applied to each client's own count)
    let by_id = ids.clients[1];
    let by_served = l.allow == 0 || l.allow >= 2;
    let mut by_latest = Uuid::nil();
    let mut bystander = |findings: &mut Vec<(String, String)>, nreq: &mut u64, addr: String, snapshot: bool| {
        if !by_served {
            return;
        }
        *nreq += 1;
        match http(&addr, "POST", &format!("/v1/client/add-version/{by_latest}"), &[cid(by_id), ("Content-Type", HS_CT.to_string())], Some(b"bystander"), false) {
            Ok(r) if r.status == 200 => {
                if let Some(id) = r.header_str("X-Version-Id").and_then(|s| Uuid::parse_str(&s).ok()) {
                    by_latest = id;
                }
            }
            Ok(r) => findings.push(("listed-client-not-served".into(), format!("AddVersion of a second client on {addr} answered {}", r.status))),
            Err(e) => findings.push(("address-not-served".into(), format!("AddVersion of a second client on {addr}: {e}"))),
        }
        if snapshot {
            *nreq += 1;
            let _ = http(&addr, "POST", &format!("/v1/client/add-snapshot/{by_latest}"), &[cid(by_id), ("Content-Type", SNAP_CT.to_string())], Some(b"bystander-snapshot"), false);
        }
    };
    for n in 1..=5 {
        let ad = next_addr(&addrs);
        bystander(&mut findings, &mut nreq, ad, n == 1);
        let ad = next_addr(&addrs);
        add_version(&mut findings, &mut nreq, &mut latest, &mut chain, &mut snap, ad, n % 2 == 0, n);
    }
    // time passes: 2 days, then 3 days (edited from outside, as an operator could)
    // (2 and 3 days cross small configured targets; 15 and 22 days cross the defaults' low and high
    // thresholds, so a server started without the options shows which defaults it really has)
    for age in [2i64, 3, 15, 22] {
        let ok = (|| -> Result<(), String> {
            let con = rusqlite::Connection::open(dir.join(DB_FILE)).map_err(|e| e.to_string())?;
            con.busy_timeout(Duration::from_secs(5)).ok();
            let ts = chrono::Utc::now().timestamp() - age * 86400 - 3600;
            let n = con.execute("UPDATE clients SET snapshot_timestamp = ?1 WHERE client_id = ?2", rusqlite::params![ts, a_id.to_string()]).map_err(|e| e.to_string())?;
            if n != 1 {
                return Err(format!("{n} client rows updated"));
            }
            Ok(())
        })();
        if let Err(e) = ok {
            bad!("machinery", "could not age the snapshot from outside: {e}");
            break;
        }
        if let Some(s) = snap.as_mut() {
            s.0 = age;
        }
        let ad = next_addr(&addrs);
        add_version(&mut findings, &mut nreq, &mut latest, &mut chain, &mut snap, ad, false, 6 + age as usize);
    }
    // ---- allow-list
    let probe_clients: Vec<(Uuid, bool)> = (0..3).map(|i| (ids.clients[i], l.allow == 0 || i < l.allow)).collect();
    for (u, served) in &probe_clients {
        let reqs: Vec<(&str, String, Option<(&str, Vec<u8>)>)> = vec![
            ("GET", format!("/v1/client/get-child-version/{}", Uuid::nil()), None),
            ("GET", "/v1/client/snapshot".to_string(), None),
            ("POST", format!("/v1/client/add-snapshot/{}", det_uuid(seed, 22, 1)), Some((SNAP_CT, b"s".to_vec()))),
            ("POST", format!("/v1/client/add-version/{}", det_uuid(seed, 22, 2)), Some((HS_CT, b"v".to_vec()))),
        ];
        for (m, p, b) in reqs {
            if *u == a_id && m == "POST" {
                continue; // would disturb the recorded chain
            }
            let mut hs = vec![cid(*u)];
            if let Some((ct, _)) = &b {
                hs.push(("Content-Type", ct.to_string()));
            }
            nreq += 1;
            let ad = next_addr(&addrs);
            match http(&ad, m, &p, &hs, b.as_ref().map(|x| x.1.as_slice()), false) {
                Ok(r) => {
                    if *served && r.status == 403 {
                        bad!("listed-client-refused", "client {u} must be served (allow-list of {} ids) but {m} {p} answered 403", l.allow);
                    }
                    if !*served && r.status != 403 {
                        bad!("allow-list-not-enforced", "client {u} is not on the allow-list of {} ids but {m} {p} answered {}", l.allow, r.status);
                    }
                    if r.status >= 500 {
                        bad!("server-error", "{m} {p} answered {}", r.status);
                    }
                }
                Err(e) => bad!("address-not-served", "{m} {p} on {ad}: {e}"),
            }
        }
    }
    // ---- allow-list, per request and not per connection: after a served request of a listed
    // client, requests of an unlisted client on the SAME keep-alive connection are refused
    if l.allow >= 1 {
        let unlisted = ids.clients[2];
        let req = |m: &str, path: &str, who: Uuid, body: Option<(&str, &[u8])>, close: bool| -> Vec<u8> {
            let mut r = format!("{m} {path} HTTP/1.1\r\nHost: {}\r\nX-Client-Id: {who}\r\n", addrs[0]);
            if let Some((ct, b)) = body {
                r.push_str(&format!("Content-Type: {ct}\r\nContent-Length: {}\r\n", b.len()));
            }
            if close {
                r.push_str("Connection: close\r\n");
            }
            r.push_str("\r\n");
            let mut v = r.into_bytes();
            if let Some((_, b)) = body {
                v.extend_from_slice(b);
            }
            v
        };
        let gc = format!("/v1/client/get-child-version/{}", Uuid::nil());
        let av = format!("/v1/client/add-version/{}", Uuid::nil());
        let asn = format!("/v1/client/add-snapshot/{}", det_uuid(seed, 22, 3));
        let reqs = vec![
            req("GET", &gc, a_id, None, false),
            req("GET", &gc, unlisted, None, false),
            req("GET", "/v1/client/snapshot", unlisted, None, false),
            req("POST", &av, unlisted, Some((HS_CT, b"smuggled")), false),
            req("POST", &asn, unlisted, Some((SNAP_CT, b"smuggled")), false),
            req("GET", &gc, a_id, None, true),
        ];
        nreq += reqs.len() as u64;
        match one_connection(&addrs[0], &reqs) {
            Ok(ans) => {
                if ans.len() != reqs.len() {
                    bad!("machinery", "{} requests on one connection got {} answers", reqs.len(), ans.len());
                }
                for (k, a) in ans.iter().enumerate() {
                    let want_403 = (1..=4).contains(&k);
                    if want_403 && a.status != 403 {
                        bad!("allow-list-not-enforced", "on a keep-alive connection that had just served a listed client, request {k} of an unlisted client answered {} instead of 403", a.status);
                    }
                    if !want_403 && a.status == 403 {
                        bad!("listed-client-refused", "on a keep-alive connection request {k} of the listed client answered 403");
                    }
                }
            }
            Err(e) => bad!("address-not-served", "requests on one keep-alive connection: {e}"),
        }
    }
    // ---- kill -9 and restart on the same directory
    unsafe {
        libc::kill(run.child.id() as i32, libc::SIGKILL);
    }
    let _ = run.child.wait();
    drop(run);
    // the other holder of the database does not close it cleanly either (closing it now would
    // checkpoint the log on the server's behalf)
    std::mem::forget(held);
    let mut run2 = None;
    for attempt in 0..4 {
        // same addresses first; fresh ports if they are still in TIME_WAIT
        if attempt > 0 {
            addrs = l.listen.iter().map(|k| match k.as_str() {
                "v6" => format!("[::1]:{}", free_port(true)),
                "localhost" => format!("localhost:{}", free_port(false)),
                _ => format!("127.0.0.1:{}", free_port(false)),
            }).collect::<Vec<_>>();
        }
        match start(l, &dir, &addrs, &ids) {
            Ok(r) => {
                run2 = Some(r);
                break;
            }
            Err(e) if attempt == 3 => {
                bad!("does-not-restart", "after SIGKILL the server does not come up on the same directory: {e}");
                return (findings, nreq);
            }
            Err(_) => {}
        }
    }
    let _run2 = run2.unwrap();
    let mut cur = Uuid::nil();
    for (k, (id, parent, data)) in chain.iter().enumerate() {
        nreq += 1;
        let ad = next_addr(&addrs);
        match http(&ad, "GET", &format!("/v1/client/get-child-version/{cur}"), &[cid(a_id)], None, false) {
            Ok(r) if r.status == 200 => {
                let gid = r.header_str("X-Version-Id").and_then(|s| Uuid::parse_str(&s).ok());
                let gp = r.header_str("X-Parent-Version-Id").and_then(|s| Uuid::parse_str(&s).ok());
                if gid != Some(*id) || gp != Some(*parent) || r.body != *data {
                    bad!("history-changed-by-restart", "after restart version {k} reads back as id {:?} parent {:?} with {} bytes (uploaded: {id}, {parent}, {} bytes)", gid, gp, r.body.len(), data.len());
                    break;
                }
                cur = *id;
            }
            Ok(r) => {
                bad!("history-lost-by-restart", "after restart GetChildVersion({cur}) answered {} but {} versions had been acknowledged", r.status, chain.len());
                break;
            }
            Err(e) => {
                bad!("address-not-served", "after restart: {e}");
                break;
            }
        }
    }
    nreq += 1;
    let ad = next_addr(&addrs);
    match (http(&ad, "GET", "/v1/client/snapshot", &[cid(a_id)], None, false), &snapshot_at) {
        (Ok(r), Some((v, d))) => {
            if r.status != 200 || r.header_str("X-Version-Id").and_then(|s| Uuid::parse_str(&s).ok()) != Some(*v) || r.body != *d {
                bad!("history-changed-by-restart", "after restart the snapshot reads back as status {} with {} bytes", r.status, r.body.len());
            }
        }
        (Err(e), _) => bad!("address-not-served", "after restart: {e}"),
        _ => {}
    }
    // ---- storage failure under the running server: whatever it answers now (it cannot serve the
    //      data any more) still has to be a response, and still has to forbid caching
    let junk = vec![0x5au8; 8192];
    let _ = std::fs::write(dir.join(DB_FILE), &junk);
    let _ = std::fs::remove_file(dir.join(format!("{DB_FILE}-wal")));
    let reqs: Vec<(&str, String, Option<(&str, Vec<u8>)>)> = vec![
        ("GET", format!("/v1/client/get-child-version/{}", Uuid::nil()), None),
        ("GET", "/v1/client/snapshot".to_string(), None),
        ("POST", format!("/v1/client/add-version/{latest}"), Some((HS_CT, b"v".to_vec()))),
        ("POST", format!("/v1/client/add-snapshot/{latest}"), Some((SNAP_CT, b"s".to_vec()))),
    ];
    for (m, p, b) in reqs {
        let mut hs = vec![cid(a_id)];
        if let Some((ct, _)) = &b {
            hs.push(("Content-Type", ct.to_string()));
        }
        nreq += 1;
        let ad = next_addr(&addrs);
        if let Err(e) = http(&ad, m, &p, &hs, b.as_ref().map(|x| x.1.as_slice()), false) {
            bad!("no-answer-on-storage-failure", "with the database file destroyed, {m} {p} got no HTTP answer at all: {e}");
        }
    }
    (findings, nreq)
}

/// The configuration product.
pub fn launches(quick: bool) -> Vec<Launch> {
    let base = Launch { listen: vec!["v4".into()], listen_via: Via::Flag, data_via: Via::Flag, allow: 0, allow_via: Via::Flag, versions: None, versions_via: Via::Flag, days: None, days_via: Via::Flag, log: false };
    let listens: Vec<Vec<String>> = vec![vec!["v4".into()], vec!["v4".into(), "v6".into()], vec!["v4".into(), "v4".into(), "v6".into()], vec!["localhost".into(), "v4".into()]];
    let mut out = vec![];
    if quick {
        // one dimension at a time, every way of giving it
        out.push(base.clone());
        for ls in &listens {
            for via in [Via::Flag, Via::FlagComma, Via::Env] {
                let mut l = base.clone();
                l.listen = ls.clone();
                l.listen_via = via;
                out.push(l);
            }
        }
        for via in [Via::Flag, Via::Env] {
            let mut l = base.clone();
            l.data_via = via;
            out.push(l);
        }
        for n in [1usize, 2] {
            for via in [Via::Flag, Via::FlagComma, Via::Env] {
                let mut l = base.clone();
                l.allow = n;
                l.allow_via = via;
                out.push(l);
            }
        }
        for v in [1u32, 3] {
            for via in [Via::Flag, Via::Env] {
                let mut l = base.clone();
                l.versions = Some(v);
                l.versions_via = via;
                out.push(l);
            }
        }
        for d in [0i64, 2] {
            for via in [Via::Flag, Via::Env] {
                let mut l = base.clone();
                l.days = Some(d);
                l.days_via = via;
                out.push(l);
            }
        }
        // both targets small at once, so that one measure is in its low band while the other is high
        for (v, d) in [(3u32, 0i64), (1, 2)] {
            let mut l = base.clone();
            l.versions = Some(v);
            l.days = Some(d);
            out.push(l);
        }
        // everything from the environment at once; everything by flag at once
        for via in [Via::Env, Via::Flag] {
            out.push(Launch { listen: vec!["v4".into(), "v6".into()], listen_via: if via == Via::Env { Via::Env } else { Via::Flag }, data_via: via, allow: 2, allow_via: via, versions: Some(3), versions_via: via, days: Some(2), days_via: via, log: false });
        }
        // every one of them again with RUST_LOG=info
        let logged: Vec<Launch> = out.iter().map(|l| Launch { log: true, ..l.clone() }).collect();
        out.extend(logged);
        return out;
    }
    for ls in &listens {
        for lvia in [Via::Flag, Via::FlagComma, Via::Env] {
            for dvia in [Via::Flag, Via::Env] {
                for (allow, avias) in [(0usize, vec![Via::Flag]), (1, vec![Via::Flag, Via::Env]), (2, vec![Via::Flag, Via::FlagComma, Via::Env])] {
                    for avia in avias {
                        for (v, vvias) in [(None, vec![Via::Flag]), (Some(1u32), vec![Via::Flag, Via::Env]), (Some(3), vec![Via::Flag, Via::Env])] {
                            for vvia in vvias {
                                for (d, dvias) in [(None, vec![Via::Flag]), (Some(0i64), vec![Via::Flag, Via::Env]), (Some(2), vec![Via::Flag, Via::Env])] {
                                    for dv in dvias {
                                        out.push(Launch { listen: ls.clone(), listen_via: lvia, data_via: dvia, allow, allow_via: avia, versions: v, versions_via: vvia, days: d, days_via: dv, log: out.len() % 2 == 1 });
                                    }
                                }
                            }
                        }
                    }
                }
            }
        }
    }
    out
}

pub fn worker_main() {
    crate::pool::serve(|pv| {
        let seed = pv["seed"].as_u64().unwrap_or(1);
        move |task: &Value| -> Value {
            if let Some(k) = task["occupied"].as_u64() {
                let via = match task["via"].as_str().unwrap_or("flag") {
                    "env" => Via::Env,
                    "flag-comma-list" => Via::FlagComma,
                    _ => Via::Flag,
                };
                let r = std::panic::catch_unwind(std::panic::AssertUnwindSafe(|| occupied_address_session(k as usize, via)));
                return match r {
                    Ok((f, n)) => json!({"requests": n, "findings": f.iter().map(|(c, m)| json!({"class": c, "msg": m})).collect::<Vec<_>>()}),
                    Err(e) => json!({"error": format!("bin worker panicked: {}", crate::sut::panic_msg(e))}),
                };
            }
            if let Some(route) = task["ack_kill"].as_str() {
                let r = std::panic::catch_unwind(std::panic::AssertUnwindSafe(|| ack_kill_session(seed, route)));
                return match r {
                    Ok((f, n)) => json!({"requests": n, "findings": f.iter().map(|(c, m)| json!({"class": c, "msg": m})).collect::<Vec<_>>()}),
                    Err(e) => json!({"error": format!("bin worker panicked: {}", crate::sut::panic_msg(e))}),
                };
            }
            if task["wire"].as_bool().unwrap_or(false) {
                let r = std::panic::catch_unwind(std::panic::AssertUnwindSafe(|| wire_session(seed)));
                return match r {
                    Ok((f, n)) => json!({"requests": n, "findings": f.iter().map(|(c, m)| json!({"class": c, "msg": m})).collect::<Vec<_>>()}),
                    Err(e) => json!({"error": format!("bin worker panicked: {}", crate::sut::panic_msg(e))}),
                };
            }
            let l = Launch::from_json(task);
            let r = std::panic::catch_unwind(std::panic::AssertUnwindSafe(|| session(&l, seed)));
            match r {
                Ok((f, n)) => json!({"requests": n, "findings": f.iter().map(|(c, m)| json!({"class": c, "msg": m})).collect::<Vec<_>>()}),
                Err(e) => json!({"error": format!("bin worker panicked: {}", crate::sut::panic_msg(e))}),
            }
        }
    });
}

// ---------------------------------------------------------------------------------------------
// every listen address, or none (C17)

/// Three listen addresses of which one is taken by somebody else when the server starts. It
/// cannot serve on every address given; what it must not do is come up all the same on the
/// others and leave the operator believing the configured address is served.
pub fn occupied_address_session(which: usize, via: Via) -> (Vec<(String, String)>, u64) {
    let mut findings = vec![];
    let scratch = Scratch::new("occupied");
    let dir = scratch.path().join("data");
    let addrs: Vec<String> = (0..3).map(|_| format!("127.0.0.1:{}", free_port(false))).collect();
    // somebody else listens on one of them (and never answers)
    let Ok(_squatter) = TcpListener::bind(&addrs[which]) else {
        return (vec![("machinery".into(), "could not occupy the port".into())], 0);
    };
    let l = Launch { listen: vec!["v4".into(), "v4".into(), "v4".into()], listen_via: via, data_via: Via::Flag, allow: 0, allow_via: Via::Flag, versions: None, versions_via: Via::Flag, days: None, days_via: Via::Flag, log: false };
    let mut cmd = Command::new(server_binary());
    cmd.env_clear();
    cmd.env("PATH", std::env::var("PATH").unwrap_or_default());
    cmd.stdin(Stdio::null()).stdout(Stdio::null()).stderr(Stdio::null());
    std::fs::create_dir_all(&dir).ok();
    cmd.current_dir(dir.parent().unwrap());
    match l.listen_via {
        Via::Flag => {
            for a in &addrs {
                cmd.arg("--listen").arg(a);
            }
        }
        Via::FlagComma => {
            cmd.arg("--listen").arg(addrs.join(","));
        }
        Via::Env => {
            cmd.env("LISTEN", addrs.join(","));
        }
    }
    cmd.arg("--data-dir").arg(&dir);
    let mut child = match cmd.spawn() {
        Ok(c) => c,
        Err(e) => return (vec![("machinery".into(), format!("cannot start the server: {e}"))], 0),
    };
    let mut nreq = 0u64;
    let t0 = Instant::now();
    let mut served_elsewhere: Option<String> = None;
    let mut exited = false;
    while t0.elapsed() < Duration::from_millis(2500) {
        if let Ok(Some(_)) = child.try_wait() {
            exited = true;
            break;
        }
        for (k, a) in addrs.iter().enumerate() {
            if k != which {
                nreq += 1;
                if let Ok(r) = http_raw(a, "GET", "/", &[], None, false) {
                    if r.status == 200 {
                        served_elsewhere = Some(a.clone());
                    }
                }
            }
        }
        if served_elsewhere.is_some() {
            break;
        }
        std::thread::sleep(Duration::from_millis(30));
    }
    let _ = child.kill();
    let _ = child.wait();
    if !exited {
        if let Some(a) = served_elsewhere {
            findings.push(("partial-listen".into(), format!("listen addresses {:?} configured, {} is taken by another program: the server started anyway and serves on {a} only - not on every address given, and without saying so", addrs, addrs[which])));
        }
    }
    (findings, nreq)
}

// ---------------------------------------------------------------------------------------------
// acknowledged means committed (C04), in real time through the executable

/// An upload that has to wait for the database (another connection holds the write lock for
/// three real seconds) and a kill the moment it is acknowledged: after the restart it must be
/// there. A server that answers before its storage has committed - a timer, a background task -
/// acknowledges while the lock is still held, and loses the upload in the kill.
pub fn ack_kill_session(seed: u64, route: &str) -> (Vec<(String, String)>, u64) {
    let mut findings: Vec<(String, String)> = vec![];
    let mut nreq = 0u64;
    let scratch = Scratch::new("ackkill");
    let dir = scratch.path().join("data");
    let mut run = match start_plain(&dir) {
        Ok(r) => r,
        Err(e) => return (vec![("machinery".into(), format!("the server does not start: {e}"))], 0),
    };
    let addr = run.addrs[0].clone();
    let c = det_uuid(seed, 41, 1);
    nreq += 1;
    let v1 = match http(&addr, "POST", &format!("/v1/client/add-version/{}", Uuid::nil()), &[("X-Client-Id", c.to_string()), ("Content-Type", HS_CT.to_string())], Some(b"first"), false) {
        Ok(r) if r.status == 200 => r.header_str("X-Version-Id").and_then(|s| Uuid::parse_str(&s).ok()).unwrap_or_default(),
        other => return (vec![("machinery".into(), format!("setup request failed: {:?}", other.map(|r| r.status)))], nreq),
    };
    let holder = match rusqlite::Connection::open(dir.join(DB_FILE)) {
        Ok(h) => h,
        Err(e) => return (vec![("machinery".into(), format!("cannot open the database from outside: {e}"))], nreq),
    };
    holder.busy_timeout(Duration::from_secs(10)).ok();
    if let Err(e) = holder.execute_batch("BEGIN IMMEDIATE") {
        return (vec![("machinery".into(), format!("cannot take the write lock from outside: {e}"))], nreq);
    }
    let payload: Vec<u8> = format!("uploaded while the database was busy ({route})").into_bytes();
    let (path, ct) = if route == "add-snapshot" { (format!("/v1/client/add-snapshot/{v1}"), SNAP_CT) } else { (format!("/v1/client/add-version/{v1}"), HS_CT) };
    let (a2, p2, b2) = (addr.clone(), path.clone(), payload.clone());
    nreq += 1;
    let h = std::thread::spawn(move || http(&a2, "POST", &p2, &[("X-Client-Id", c.to_string()), ("Content-Type", ct.to_string())], Some(&b2), false));
    let t0 = Instant::now();
    while t0.elapsed() < Duration::from_millis(3000) && !h.is_finished() {
        std::thread::sleep(Duration::from_millis(20));
    }
    let early = h.is_finished();
    if !early {
        let _ = holder.execute_batch("COMMIT");
    }
    let ans = h.join().unwrap_or_else(|_| Err("request thread panicked".into()));
    // the moment the answer is here: kill
    unsafe {
        libc::kill(run.child.id() as i32, libc::SIGKILL);
    }
    let _ = run.child.wait();
    drop(run);
    drop(holder);
    let acknowledged = matches!(&ans, Ok(r) if r.status == 200);
    match &ans {
        Ok(r) if r.status == 200 || r.status >= 500 => {}
        Ok(r) => findings.push(("machinery".into(), format!("{route} while the database was busy answered {}", r.status))),
        Err(e) => findings.push(("machinery".into(), format!("{route} while the database was busy: {e}"))),
    }
    let run2 = match start_plain(&dir) {
        Ok(r) => r,
        Err(e) => {
            // only a server that exits on this directory has failed to restart; one that is slow
            // to come up on a loaded machine is the harness's problem
            let class = if e.contains("exited at once") { "does-not-restart" } else { "machinery" };
            findings.push((class.into(), format!("after the kill the server does not come up on the same directory: {e}")));
            return (findings, nreq);
        }
    };
    nreq += 1;
    let back = if route == "add-snapshot" {
        http(&run2.addrs[0], "GET", "/v1/client/snapshot", &[("X-Client-Id", c.to_string())], None, false)
    } else {
        http(&run2.addrs[0], "GET", &format!("/v1/client/get-child-version/{v1}"), &[("X-Client-Id", c.to_string())], None, false)
    };
    let present = matches!(&back, Ok(r) if r.status == 200 && r.body == payload);
    if acknowledged && !present {
        findings.push((format!("acknowledged-before-commit|{route}"), format!("{route} was acknowledged with 200 {} and the server killed at once; after the restart the upload is not there ({})", if early { "while another connection still held the write lock" } else { "right after the write lock became free" }, match &back { Ok(r) => format!("read-back answered {}", r.status), Err(e) => e.clone() })));
    }
    if early && acknowledged {
        findings.push((format!("acknowledged-while-locked|{route}"), format!("{route} was acknowledged with 200 while another connection held the database's write lock: nothing can have been committed yet")));
    }
    (findings, nreq)
}

// ---------------------------------------------------------------------------------------------
// wire-level grammar (C15): requests that only exist on a real socket

/// Send raw bytes, optionally half-close, and read whatever comes back (None = no answer).
fn raw_exchange(addr: &str, bytes: &[u8], half_close: bool, read: bool) -> Option<RawHttp> {
    let sa = addr.to_socket_addrs().ok()?.next()?;
    let mut s = TcpStream::connect_timeout(&sa, Duration::from_secs(3)).ok()?;
    s.set_read_timeout(Some(Duration::from_millis(1500))).ok();
    s.write_all(bytes).ok()?;
    s.flush().ok();
    if half_close {
        let _ = s.shutdown(std::net::Shutdown::Write);
    }
    if !read {
        // give the server a moment to see the bytes before the connection goes away
        std::thread::sleep(Duration::from_millis(150));
        return None;
    }
    let mut buf = vec![];
    let mut tmp = [0u8; 65536];
    loop {
        match s.read(&mut tmp) {
            Ok(0) => break,
            Ok(n) => buf.extend_from_slice(&tmp[..n]),
            Err(_) => break,
        }
        if buf.windows(4).any(|w| w == b"\r\n\r\n") && buf.len() > 12 {
            // headers complete; bodies of the answers we care about are tiny
            std::thread::sleep(Duration::from_millis(50));
        }
    }
    let sep = buf.windows(4).position(|w| w == b"\r\n\r\n")?;
    let head = String::from_utf8_lossy(&buf[..sep]).to_string();
    let mut lines = head.split("\r\n");
    let status: u16 = lines.next()?.split(' ').nth(1)?.parse().ok()?;
    let mut hs = vec![];
    for l in lines {
        if let Some((k, v)) = l.split_once(':') {
            hs.push((k.trim().to_ascii_lowercase(), v.trim().as_bytes().to_vec()));
        }
    }
    Some(RawHttp { status, headers: hs, body: buf[sep + 4..].to_vec() })
}

/// Several requests on ONE connection (keep-alive, written back to back; the last one asks for
/// the connection to be closed). Returns the answers in order (status, headers, body).
pub fn one_connection(addr: &str, reqs: &[Vec<u8>]) -> Result<Vec<RawHttp>, String> {
    let sa = addr.to_socket_addrs().map_err(|e| e.to_string())?.next().ok_or("no address")?;
    let mut s = TcpStream::connect_timeout(&sa, Duration::from_secs(3)).map_err(|e| format!("connect: {e}"))?;
    s.set_read_timeout(Some(Duration::from_secs(10))).ok();
    for r in reqs {
        s.write_all(r).map_err(|e| format!("write: {e}"))?;
    }
    s.flush().ok();
    let mut buf = vec![];
    let _ = s.read_to_end(&mut buf);
    let mut out = vec![];
    let mut p = 0usize;
    while p < buf.len() {
        let Some(e) = buf[p..].windows(4).position(|w| w == b"\r\n\r\n") else { break };
        let head = String::from_utf8_lossy(&buf[p..p + e]).to_string();
        let mut lines = head.split("\r\n");
        let status: u16 = lines.next().and_then(|l| l.split(' ').nth(1)).and_then(|x| x.parse().ok()).ok_or_else(|| format!("bad status line in answer {}", out.len()))?;
        let mut hs = vec![];
        for l in lines {
            if let Some((k, v)) = l.split_once(':') {
                hs.push((k.trim().to_ascii_lowercase(), v.trim().as_bytes().to_vec()));
            }
        }
        p += e + 4;
        let mut body = vec![];
        let chunked = hs.iter().any(|(k, v)| k == "transfer-encoding" && String::from_utf8_lossy(v).contains("chunked"));
        let clen = hs.iter().find(|(k, _)| k == "content-length").and_then(|(_, v)| String::from_utf8_lossy(v).parse::<usize>().ok());
        if chunked {
            loop {
                let Some(e2) = buf[p..].windows(2).position(|w| w == b"\r\n") else { break };
                let n = usize::from_str_radix(String::from_utf8_lossy(&buf[p..p + e2]).trim(), 16).unwrap_or(0);
                p += e2 + 2;
                if n == 0 {
                    p = (p + 2).min(buf.len());
                    break;
                }
                let end = (p + n).min(buf.len());
                body.extend_from_slice(&buf[p..end]);
                p = (end + 2).min(buf.len());
            }
        } else if let Some(n) = clen {
            let end = (p + n).min(buf.len());
            body.extend_from_slice(&buf[p..end]);
            p = end;
        }
        out.push(RawHttp { status, headers: hs, body });
    }
    Ok(out)
}

/// Uploads whose body never completes on the wire (declared length not delivered, chunked body
/// cut short or with broken framing): each must be refused if it is answered at all, and must
/// store nothing. Returns (findings, requests sent).
pub fn wire_session(seed: u64) -> (Vec<(String, String)>, u64) {
    let mut findings: Vec<(String, String)> = vec![];
    let mut nreq = 0u64;
    let scratch = Scratch::new("wire");
    let dir = scratch.path().join("data");
    let l = Launch { listen: vec!["v4".into()], listen_via: Via::Flag, data_via: Via::Flag, allow: 0, allow_via: Via::Flag, versions: None, versions_via: Via::Flag, days: None, days_via: Via::Flag, log: true };
    let ids = Ids { clients: (0..3).map(|i| det_uuid(seed, 31, i)).collect() };
    let mut run = None;
    let mut addr = String::new();
    for _ in 0..4 {
        addr = format!("127.0.0.1:{}", free_port(false));
        if let Ok(r) = start(&l, &dir, &[addr.clone()], &ids) {
            run = Some(r);
            break;
        }
    }
    let Some(_run) = run else {
        return (vec![("machinery".into(), "the server does not start".into())], 0);
    };
    let c = ids.clients[0];
    // a client with one version and a snapshot on it
    let v1 = match http(&addr, "POST", &format!("/v1/client/add-version/{}", Uuid::nil()), &[("X-Client-Id", c.to_string()), ("Content-Type", HS_CT.to_string())], Some(b"first"), false) {
        Ok(r) if r.status == 200 => r.header_str("X-Version-Id").and_then(|s| Uuid::parse_str(&s).ok()).unwrap_or_default(),
        other => return (vec![("machinery".into(), format!("setup request failed: {:?}", other.map(|r| r.status)))], 1),
    };
    let _ = http(&addr, "POST", &format!("/v1/client/add-snapshot/{v1}"), &[("X-Client-Id", c.to_string()), ("Content-Type", SNAP_CT.to_string())], Some(b"snap-1"), false);
    let mut v1 = v1;
    let mut snap_now: Vec<u8> = b"snap-1".to_vec();
    let partial = vec![b'P'; 400];
    // (key, label, bytes after the head, framing header)
    let mut cases: Vec<(&str, String, &str, Vec<u8>, String)> = vec![];
    for route in ["add-version", "add-snapshot"] {
        cases.push(("content-length-short", format!("{route}: Content-Length 1000, 400 bytes delivered"), route, partial.clone(), "Content-Length: 1000".into()));
        cases.push(("content-length-short", format!("{route}: Content-Length 1000, 1 byte delivered"), route, b"x".to_vec(), "Content-Length: 1000".into()));
        cases.push(("content-length-short", format!("{route}: Content-Length 100000000, 400 bytes delivered"), route, partial.clone(), "Content-Length: 100000000".into()));
        // a declared length no body can have (or that no buffer can hold): the declaration alone
        // must not hurt the server, and since the head is complete and the client waits, the
        // request must be refused with an answer
        for n in ["104857601", "1000000000000000", "9223372036854775807", "9223372036854775808", "18446744073709551615"] {
            cases.push(("content-length-absurd", format!("{route}: Content-Length {n}, 400 bytes delivered"), route, partial.clone(), format!("Content-Length: {n}")));
        }
        cases.push(("chunked-no-terminating-chunk", format!("{route}: chunked, one complete chunk, no terminating chunk"), route, b"190\r\n".iter().chain(partial.iter()).chain(b"\r\n".iter()).cloned().collect(), "Transfer-Encoding: chunked".into()));
        cases.push(("chunked-chunk-cut-short", format!("{route}: chunked, chunk cut short"), route, b"3e8\r\n".iter().chain(partial.iter()).cloned().collect(), "Transfer-Encoding: chunked".into()));
        cases.push(("chunked-broken-size-line", format!("{route}: chunked, broken chunk-size line after a good chunk"), route, b"190\r\n".iter().chain(partial.iter()).chain(b"\r\nNOT-A-SIZE\r\n".iter()).cloned().collect(), "Transfer-Encoding: chunked".into()));
    }
    for (key, label, route, body, framing) in cases {
        for (how, half_close, read) in [("the client stops sending (half-close) and waits for the answer", true, true), ("the connection is closed", false, false)] {
            nreq += 1;
            let ct = if route == "add-version" { HS_CT } else { SNAP_CT };
            let mut bytes = format!("POST /v1/client/{route}/{v1} HTTP/1.1\r\nHost: {addr}\r\nX-Client-Id: {c}\r\nContent-Type: {ct}\r\n{framing}\r\n\r\n").into_bytes();
            bytes.extend_from_slice(&body);
            let resp = raw_exchange(&addr, &bytes, half_close, read);
            if resp.is_none() && read && key == "content-length-absurd" {
                findings.push((format!("wire-no-answer|{key}|{route}"), format!("{label}; {how}: no HTTP answer at all")));
            }
            if let Some(r) = &resp {
                if r.status >= 500 {
                    findings.push((format!("wire-5xx|{key}|{route}"), format!("{label}; {how}: answered {}", r.status)));
                } else if (200..300).contains(&r.status) {
                    findings.push((format!("incomplete-upload-acknowledged|{key}|{route}"), format!("{label}; {how}: the upload never completed, yet it was acknowledged with {}", r.status)));
                }
            }
            // nothing may have been stored
            nreq += 2;
            match http(&addr, "GET", &format!("/v1/client/get-child-version/{v1}"), &[("X-Client-Id", c.to_string())], None, false) {
                Ok(r) if r.status == 404 => {}
                Ok(r) if r.status == 200 => {
                    findings.push((format!("incomplete-upload-stored|{key}|{route}"), format!("{label}; {how}: a version of {} bytes was stored although the body never completed", r.body.len())));
                    // the chain has moved: go on from the new latest version
                    if let Some(id) = r.header_str("X-Version-Id").and_then(|s| Uuid::parse_str(&s).ok()) {
                        v1 = id;
                    }
                }
                Ok(r) => findings.push((format!("wire-state|{key}|{route}"), format!("{label}; {how}: GetChildVersion afterwards answered {}", r.status))),
                Err(e) => findings.push((format!("wire-no-answer|{key}|{route}"), format!("{label}; {how}: the server stopped answering: {e}"))),
            }
            match http(&addr, "GET", "/v1/client/snapshot", &[("X-Client-Id", c.to_string())], None, false) {
                Ok(r) if r.status == 200 && r.body == snap_now => {}
                Ok(r) => {
                    findings.push((format!("incomplete-upload-stored|{key}|{route}"), format!("{label}; {how}: the stored snapshot changed (status {}, {} bytes) although the body never completed", r.status, r.body.len())));
                    snap_now = r.body.clone();
                }
                Err(e) => findings.push((format!("wire-no-answer|{key}|{route}"), format!("{label}; {how}: the server stopped answering: {e}"))),
            }
        }
    }
    // ---- header grammar through the executable (started with RUST_LOG=info): every form of a
    // bad client id on every route must be answered, and with a 4xx
    let long = "x".repeat(300);
    let ids_bad: Vec<(&str, Option<String>)> = vec![
        ("absent", None),
        ("empty", Some(String::new())),
        ("one-char", Some("a".into())),
        ("three-chars", Some("abc".into())),
        ("braces-only", Some("{}".into())),
        ("seven-chars", Some("1234567".into())),
        ("eight-chars", Some("12345678".into())),
        ("35-chars", Some(c.to_string()[..35].to_string())),
        ("37-chars", Some(format!("{c}0"))),
        ("non-hex", Some("zzzzzzzz-zzzz-zzzz-zzzz-zzzzzzzzzzzz".into())),
        ("long", Some(long)),
        ("two-byte-utf8", Some("\u{e9}\u{e9}\u{e9}".into())),
    ];
    let routes: Vec<(&str, String, Option<(&str, &[u8])>)> = vec![
        ("GET", format!("/v1/client/get-child-version/{v1}"), None),
        ("GET", "/v1/client/snapshot".to_string(), None),
        ("POST", format!("/v1/client/add-version/{v1}"), Some((HS_CT, b"body"))),
        ("POST", format!("/v1/client/add-snapshot/{v1}"), Some((SNAP_CT, b"body"))),
    ];
    for (name, val) in &ids_bad {
        for (m, path, body) in &routes {
            nreq += 1;
            let mut hs: Vec<(&str, String)> = vec![];
            if let Some(v) = val {
                hs.push(("X-Client-Id", v.clone()));
            }
            if let Some((ct, _)) = body {
                hs.push(("Content-Type", ct.to_string()));
            }
            // (a refusal decided from the headers may reset the connection while the body is
            // still being written; a lost answer is asked for again, a server that never answers
            // this request fails all three times)
            let mut ans = http(&addr, m, path, &hs, body.map(|b| b.1), false);
            for _ in 0..2 {
                if ans.is_ok() {
                    break;
                }
                nreq += 1;
                ans = http(&addr, m, path, &hs, body.map(|b| b.1), false);
            }
            match ans {
                Ok(r) if (400..500).contains(&r.status) => {}
                Ok(r) => findings.push((format!("bad-client-id-not-4xx|{name}"), format!("{m} {path} with client id {name}: answered {}", r.status))),
                Err(e) => findings.push((format!("bad-client-id-no-answer|{name}"), format!("{m} {path} with client id {name}: no HTTP answer at all ({e})"))),
            }
        }
    }
    // ---- requests of different clients on ONE keep-alive connection: each is answered as if it
    // had come alone (nothing about a connection's earlier requests may stick to later ones)
    {
        let other = ids.clients[1];
        let get = |path: &str, who: Option<Uuid>, close: bool| -> Vec<u8> {
            let mut r = format!("GET {path} HTTP/1.1\r\nHost: {addr}\r\n");
            if let Some(w) = who {
                r.push_str(&format!("X-Client-Id: {w}\r\n"));
            }
            if close {
                r.push_str("Connection: close\r\n");
            }
            r.push_str("\r\n");
            r.into_bytes()
        };
        let gc = format!("/v1/client/get-child-version/{}", Uuid::nil());
        let plan: Vec<(&str, Option<Uuid>)> = vec![
            (gc.as_str(), Some(c)), (gc.as_str(), Some(other)), ("/v1/client/snapshot", Some(other)), ("/v1/client/snapshot", Some(c)),
            (gc.as_str(), None), (gc.as_str(), Some(c)), ("/v1/client/snapshot", None), (gc.as_str(), Some(other)),
        ];
        // the same requests alone, each on a fresh connection
        let mut alone = vec![];
        for (path, who) in &plan {
            nreq += 1;
            let hs: Vec<(&str, String)> = who.map(|w| vec![("X-Client-Id", w.to_string())]).unwrap_or_default();
            alone.push(http(&addr, "GET", path, &hs, None, false).map(|r| (r.status, r.body)));
        }
        let reqs: Vec<Vec<u8>> = plan.iter().enumerate().map(|(k, (path, who))| get(path, *who, k + 1 == plan.len())).collect();
        nreq += plan.len() as u64;
        match one_connection(&addr, &reqs) {
            Ok(answers) => {
                if answers.len() != plan.len() {
                    findings.push(("keep-alive|answers-missing".into(), format!("{} requests on one connection got {} answers", plan.len(), answers.len())));
                }
                for (k, a) in answers.iter().enumerate() {
                    let ok_cc = a.headers.iter().any(|(h, v)| h == "cache-control" && String::from_utf8_lossy(v).to_ascii_lowercase().contains("no-store"));
                    if !ok_cc {
                        NO_CC.with(|x| x.borrow_mut().push(format!("answer {k} on a keep-alive connection ({}) carries no Cache-Control: no-store", a.status)));
                    }
                    if let Some(Ok((st, body))) = alone.get(k) {
                        if *st != a.status || *body != a.body {
                            findings.push(("keep-alive|differs-from-alone".into(), format!("request {k} ({} as {:?}) answered {} / {} bytes on a connection that had carried other clients' requests, but {} / {} bytes on a connection of its own", plan[k].0, plan[k].1, a.status, a.body.len(), st, body.len())));
                        }
                    }
                }
            }
            Err(e) => findings.push(("keep-alive|no-answer".into(), format!("requests on one keep-alive connection: {e}"))),
        }
    }
    // ---- HTTP/1.0 requests (what a reverse proxy speaks to its upstream by default): answered
    // like any other, with the headers every response must carry
    {
        let gc = format!("/v1/client/get-child-version/{}", Uuid::nil());
        for (path, who) in [("/", None), (gc.as_str(), Some(c)), ("/v1/client/snapshot", Some(c)), ("/v1/client/nope", Some(c)), (gc.as_str(), None)] {
            nreq += 1;
            let mut r = format!("GET {path} HTTP/1.0\r\nHost: {addr}\r\n");
            if let Some(w) = who {
                r.push_str(&format!("X-Client-Id: {w}\r\n"));
            }
            r.push_str("\r\n");
            match one_connection(&addr, &[r.into_bytes()]) {
                Ok(ans) if ans.len() == 1 => {
                    let a = &ans[0];
                    if a.status >= 500 {
                        findings.push(("http10|5xx".into(), format!("GET {path} HTTP/1.0 answered {}", a.status)));
                    }
                    let ok_cc = a.headers.iter().any(|(h, v)| h == "cache-control" && String::from_utf8_lossy(v).to_ascii_lowercase().contains("no-store"));
                    if !ok_cc {
                        NO_CC.with(|x| x.borrow_mut().push(format!("GET {path} HTTP/1.0 answered {} without Cache-Control: no-store", a.status)));
                    }
                }
                Ok(ans) => findings.push(("http10|no-answer".into(), format!("GET {path} HTTP/1.0 got {} answers", ans.len()))),
                Err(e) => findings.push(("http10|no-answer".into(), format!("GET {path} HTTP/1.0: {e}"))),
            }
        }
    }
    // and the server is still there, unchanged
    nreq += 1;
    match http(&addr, "GET", &format!("/v1/client/get-child-version/{v1}"), &[("X-Client-Id", c.to_string())], None, false) {
        Ok(r) if r.status == 404 => {}
        Ok(r) => findings.push(("wire-state|after-header-grammar".into(), format!("after the bad-client-id requests GetChildVersion(latest) answered {}", r.status))),
        Err(e) => findings.push(("wire-no-answer|after-header-grammar".into(), format!("after the bad-client-id requests the server stopped answering: {e}"))),
    }
    (findings, nreq)
}
