//! Violations, replay files, known findings, evidence files, exit codes (DESIGN.md 3.5, 3.7).

use serde_json::{json, Map, Value};
use std::path::PathBuf;
use std::time::Instant;

pub fn verif_dir() -> PathBuf {
    std::env::var("TCSS_VERIF_DIR")
        .map(PathBuf::from)
        .unwrap_or_else(|_| PathBuf::from("/verif"))
}

/// Where evidence and replay files go (tools that run checks against a seeded tree redirect
/// them, so that /verif/evidence only ever describes the unchanged tree).
pub fn out_dir() -> PathBuf {
    std::env::var("TCSS_OUT_DIR").map(PathBuf::from).unwrap_or_else(|_| verif_dir())
}

pub fn seed() -> u64 {
    std::env::var("VERIF_SEED")
        .ok()
        .and_then(|s| s.parse::<i64>().ok())
        .map(|x| x as u64)
        .unwrap_or(20261002)
}

#[derive(Clone, Debug)]
pub struct Violation {
    pub property: String,
    /// class key used to match entries of known_findings.json
    pub signature: String,
    pub message: String,
    /// everything needed to re-run this one execution without the explorer
    pub replay: Value,
}

pub fn fnv(s: &str) -> u64 {
    let mut h: u64 = 0xcbf29ce484222325;
    for x in s.bytes() {
        h ^= x as u64;
        h = h.wrapping_mul(0x100000001b3);
    }
    h
}

pub struct Report {
    pub property: String,
    pub tier: String,
    pub level: String,
    pub coverage: Map<String, Value>,
    pub assumptions: Vec<String>,
    pub violations: Vec<Violation>,
    pub start: Instant,
    /// machinery problems (engine crash, nondeterministic replay): exit 2, never a verdict
    pub machinery_errors: Vec<String>,
}

impl Report {
    pub fn new(property: &str, tier: &str, level: &str) -> Report {
        Report {
            property: property.to_string(),
            tier: tier.to_string(),
            level: level.to_string(),
            coverage: Map::new(),
            assumptions: vec![],
            violations: vec![],
            start: Instant::now(),
            machinery_errors: vec![],
        }
    }

    pub fn cov(&mut self, k: &str, v: Value) {
        self.coverage.insert(k.to_string(), v);
    }

    pub fn add_count(&mut self, k: &str, n: u64) {
        let cur = self.coverage.get(k).and_then(|v| v.as_u64()).unwrap_or(0);
        self.coverage.insert(k.to_string(), json!(cur + n));
    }

    pub fn assume(&mut self, s: &str) {
        if !self.assumptions.iter().any(|a| a == s) {
            self.assumptions.push(s.to_string());
        }
    }

    /// Write replays + evidence, print verdict lines, return the process exit code.
    pub fn finish(mut self) -> i32 {
        let vdir = verif_dir();
        let known = load_known(&vdir);
        let replay_dir = out_dir().join("replays");
        let _ = std::fs::create_dir_all(&replay_dir);
        let mut new_violations = 0;
        let mut known_hits: Vec<String> = vec![];
        // de-duplicate by signature: one replay per class, first (= shortest, explorers are
        // breadth-first / fewest-deviations-first) kept
        let mut seen = std::collections::BTreeSet::new();
        let mut printed = 0;
        let total = self.violations.len();
        for v in &self.violations {
            if !seen.insert(v.signature.clone()) {
                continue;
            }
            let open = known.iter().find(|k| {
                k.status == "open" && k.property == v.property && k.signature == v.signature
            });
            if let Some(k) = open {
                let line = format!("KNOWN-FINDING: property={} {}", v.property, k.what);
                if !known_hits.contains(&line) {
                    println!("{line}");
                    known_hits.push(line);
                }
                continue;
            }
            new_violations += 1;
            let name = format!("{}-{:016x}.json", v.property, fnv(&v.signature));
            let path = replay_dir.join(&name);
            let body = json!({
                "property": v.property,
                "signature": v.signature,
                "message": v.message,
                "replay": v.replay,
            });
            let _ = std::fs::write(&path, serde_json::to_string_pretty(&body).unwrap());
            if printed < 20 {
                println!("VIOLATION property={} replay={}", v.property, path.display());
                println!("  {}", v.message.replace('\n', "\n  "));
                printed += 1;
            }
        }
        if new_violations > printed {
            println!(
                "... {} further violation classes not printed",
                new_violations - printed
            );
        }
        let wall = self.start.elapsed().as_secs_f64();
        self.coverage
            .insert("violation_classes".into(), json!(seen.len()));
        self.coverage
            .insert("violations_total".into(), json!(total));
        self.coverage
            .insert("known_findings_matched".into(), json!(known_hits.len()));
        if !self.machinery_errors.is_empty() {
            self.coverage
                .insert("machinery_errors".into(), json!(self.machinery_errors));
        }
        let ev = json!({
            "property_id": self.property,
            "tier": self.tier,
            "seed": seed() as i64,
            "level": self.level,
            "coverage": Value::Object(self.coverage.clone()),
            "assumptions": self.assumptions,
            "wall_s": wall,
            "violations": new_violations,
        });
        let evdir = out_dir().join("evidence");
        let _ = std::fs::create_dir_all(&evdir);
        let evpath = evdir.join(format!("{}.json", self.property));
        std::fs::write(&evpath, serde_json::to_string_pretty(&ev).unwrap())
            .expect("write evidence");
        if !self.machinery_errors.is_empty() {
            for m in self.machinery_errors.iter().take(20) {
                eprintln!("MACHINERY-ERROR property={} {}", self.property, m);
            }
            // a violation that was found, replayed and written out stands on its own; parts of
            // the exploration that broke down do not take it back
            if new_violations == 0 {
                return 2;
            }
        }
        if new_violations > 0 {
            println!(
                "FAIL property={} tier={} violation_classes={} wall_s={:.1}",
                self.property, self.tier, new_violations, wall
            );
            1
        } else {
            println!(
                "PASS property={} tier={} wall_s={:.1} evidence={}",
                self.property,
                self.tier,
                wall,
                evpath.display()
            );
            0
        }
    }
}

#[derive(Clone, Debug)]
pub struct Known {
    pub status: String,
    pub property: String,
    pub signature: String,
    pub what: String,
}

pub fn load_known(vdir: &std::path::Path) -> Vec<Known> {
    let p = vdir.join("known_findings.json");
    let Ok(s) = std::fs::read_to_string(&p) else {
        return vec![];
    };
    let Ok(v) = serde_json::from_str::<Value>(&s) else {
        eprintln!("warning: known_findings.json does not parse; ignoring it");
        return vec![];
    };
    let mut out = vec![];
    if let Some(arr) = v.get("findings").and_then(|f| f.as_array()) {
        for f in arr {
            out.push(Known {
                status: f["status"].as_str().unwrap_or("").to_string(),
                property: f["property"].as_str().unwrap_or("").to_string(),
                signature: f["signature"].as_str().unwrap_or("").to_string(),
                what: f["what"].as_str().unwrap_or("").to_string(),
            });
        }
    }
    out
}
