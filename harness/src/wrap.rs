//! Transparent `Storage` adapter (DESIGN.md 3.3): lets the harness keep a handle on the storage
//! it hands to `Server` / `WebServer`, count accesses, place scheduling points and inject
//! faults, all at the `Storage` / `StorageTxn` trait seam — no change to the repository.

use std::sync::atomic::{AtomicU64, Ordering};
use std::sync::Arc;
use taskchampion_sync_server_core::{Client, Snapshot, Storage, StorageTxn, Version};
use uuid::Uuid;

#[derive(Clone, Copy, Debug, PartialEq, Eq, Hash, PartialOrd, Ord)]
pub enum Call {
    Txn,
    GetClient,
    NewClient,
    SetSnapshot,
    GetSnapshotData,
    GetVersionByParent,
    GetVersion,
    AddVersion,
    Commit,
    DropTxn,
}

impl Call {
    pub fn name(&self) -> &'static str {
        match self {
            Call::Txn => "txn",
            Call::GetClient => "get_client",
            Call::NewClient => "new_client",
            Call::SetSnapshot => "set_snapshot",
            Call::GetSnapshotData => "get_snapshot_data",
            Call::GetVersionByParent => "get_version_by_parent",
            Call::GetVersion => "get_version",
            Call::AddVersion => "add_version",
            Call::Commit => "commit",
            Call::DropTxn => "drop_txn",
        }
    }
}

/// Observer / fault injector. `before` runs before the real call (returning an error makes the
/// call fail without taking effect); `after` runs after the real call succeeded (returning an
/// error reports failure although the call took effect).
pub trait Probe: Send + Sync {
    fn before(&self, _call: Call) -> Option<anyhow::Error> {
        None
    }
    fn after(&self, _call: Call) -> Option<anyhow::Error> {
        None
    }
    /// which client a transaction is opened for
    fn on_txn(&self, _client: Uuid) {}
}

pub struct NoProbe;
impl Probe for NoProbe {}

/// Counts `txn()` calls and all storage calls.
#[derive(Default)]
pub struct Counter {
    pub txns: AtomicU64,
    pub calls: AtomicU64,
    /// calls that can change stored state (new_client, set_snapshot, add_version, commit)
    pub writes: AtomicU64,
    /// client ids of the transactions opened
    pub clients: std::sync::Mutex<Vec<Uuid>>,
}
impl Probe for Counter {
    fn on_txn(&self, client: Uuid) {
        self.clients.lock().unwrap().push(client);
    }
    fn before(&self, call: Call) -> Option<anyhow::Error> {
        if call == Call::Txn {
            self.txns.fetch_add(1, Ordering::SeqCst);
        }
        if matches!(call, Call::NewClient | Call::SetSnapshot | Call::AddVersion | Call::Commit) {
            self.writes.fetch_add(1, Ordering::SeqCst);
        }
        if call != Call::DropTxn {
            self.calls.fetch_add(1, Ordering::SeqCst);
        }
        None
    }
}

/// Chains several probes.
pub struct Multi(pub Vec<Arc<dyn Probe>>);
impl Probe for Multi {
    fn before(&self, call: Call) -> Option<anyhow::Error> {
        for p in &self.0 {
            if let Some(e) = p.before(call) {
                return Some(e);
            }
        }
        None
    }
    fn after(&self, call: Call) -> Option<anyhow::Error> {
        for p in &self.0 {
            if let Some(e) = p.after(call) {
                return Some(e);
            }
        }
        None
    }
}

#[derive(Clone)]
pub struct Inst {
    pub inner: Arc<dyn Storage>,
    pub probe: Arc<dyn Probe>,
}

impl Inst {
    pub fn new(inner: Arc<dyn Storage>, probe: Arc<dyn Probe>) -> Self {
        Inst { inner, probe }
    }
    pub fn plain(inner: Arc<dyn Storage>) -> Self {
        Inst {
            inner,
            probe: Arc::new(NoProbe),
        }
    }
}

struct InstTxn<'a> {
    inner: Option<Box<dyn StorageTxn + 'a>>,
    probe: Arc<dyn Probe>,
}

impl Storage for Inst {
    fn txn(&self, client_id: Uuid) -> anyhow::Result<Box<dyn StorageTxn + '_>> {
        self.probe.on_txn(client_id);
        if let Some(e) = self.probe.before(Call::Txn) {
            return Err(e);
        }
        let t = self.inner.txn(client_id)?;
        if let Some(e) = self.probe.after(Call::Txn) {
            drop(t);
            return Err(e);
        }
        Ok(Box::new(InstTxn {
            inner: Some(t),
            probe: self.probe.clone(),
        }))
    }
}

macro_rules! wrapped {
    ($self:ident, $call:expr, $e:expr) => {{
        if let Some(e) = $self.probe.before($call) {
            return Err(e);
        }
        let r = $e?;
        if let Some(e) = $self.probe.after($call) {
            return Err(e);
        }
        Ok(r)
    }};
}

impl StorageTxn for InstTxn<'_> {
    fn get_client(&mut self) -> anyhow::Result<Option<Client>> {
        wrapped!(self, Call::GetClient, self.inner.as_mut().unwrap().get_client())
    }
    fn new_client(&mut self, latest_version_id: Uuid) -> anyhow::Result<()> {
        wrapped!(
            self,
            Call::NewClient,
            self.inner.as_mut().unwrap().new_client(latest_version_id)
        )
    }
    fn set_snapshot(&mut self, snapshot: Snapshot, data: Vec<u8>) -> anyhow::Result<()> {
        wrapped!(
            self,
            Call::SetSnapshot,
            self.inner.as_mut().unwrap().set_snapshot(snapshot, data)
        )
    }
    fn get_snapshot_data(&mut self, version_id: Uuid) -> anyhow::Result<Option<Vec<u8>>> {
        wrapped!(
            self,
            Call::GetSnapshotData,
            self.inner.as_mut().unwrap().get_snapshot_data(version_id)
        )
    }
    fn get_version_by_parent(
        &mut self,
        parent_version_id: Uuid,
    ) -> anyhow::Result<Option<Version>> {
        wrapped!(
            self,
            Call::GetVersionByParent,
            self.inner
                .as_mut()
                .unwrap()
                .get_version_by_parent(parent_version_id)
        )
    }
    fn get_version(&mut self, version_id: Uuid) -> anyhow::Result<Option<Version>> {
        wrapped!(
            self,
            Call::GetVersion,
            self.inner.as_mut().unwrap().get_version(version_id)
        )
    }
    fn add_version(
        &mut self,
        version_id: Uuid,
        parent_version_id: Uuid,
        history_segment: Vec<u8>,
    ) -> anyhow::Result<()> {
        wrapped!(
            self,
            Call::AddVersion,
            self.inner
                .as_mut()
                .unwrap()
                .add_version(version_id, parent_version_id, history_segment)
        )
    }
    fn commit(&mut self) -> anyhow::Result<()> {
        wrapped!(self, Call::Commit, self.inner.as_mut().unwrap().commit())
    }
}

impl Drop for InstTxn<'_> {
    fn drop(&mut self) {
        let _ = self.probe.before(Call::DropTxn);
        drop(self.inner.take());
        let _ = self.probe.after(Call::DropTxn);
    }
}
