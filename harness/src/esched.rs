//! E-SCHED — stateless model checking of concurrent requests over real threads
//! (DESIGN.md 4.3, properties C03 and the concurrent half of C11).
//!
//! 2-3 real OS threads each execute one or two requests through the real code (library call or
//! actix handler, in-memory / one SQLite instance / one SQLite instance per thread), under the
//! controlled scheduler of `sched.rs`. Depth-first search over choice sequences with a
//! preemption bound; every complete execution is judged by brute-force linearizability against
//! the reference model (responses and final state).

use crate::http::HttpApp;
use crate::model::{Config, MResp, Model, SnapDecision, NIL};
use crate::sched::{self, ChoicePoint, Sched, WaitOn};
use crate::sut::{client_uuid, decode_http, det_uuid, dump_api, dump_matches, dump_sql_raw, http_req_for, lib_call, resp_matches, server_config, Req, Resp, SResp, Scratch, SymTab, UNKNOWN_SID};
use crate::vfs::{VfsCall, VfsHook};
use crate::wrap::{Call, Inst, Probe};
use serde_json::{json, Value};
use std::cell::RefCell;
use std::sync::atomic::{AtomicUsize, Ordering};
use std::sync::{Arc, Mutex};
use taskchampion_sync_server::WebServer;
use taskchampion_sync_server_core::{InMemoryStorage, Server, Storage};
use taskchampion_sync_server_storage_sqlite::SqliteStorage;
use uuid::Uuid;

#[derive(Clone, Copy, Debug, PartialEq, Eq, Hash, PartialOrd, Ord)]
pub enum RKind {
    AvLatest,
    AvNil,
    AvStale,
    GcLatest,
    GcNil,
    AsLatest,
    AsOlder,
    Gs,
}

impl RKind {
    pub fn all() -> Vec<RKind> {
        vec![RKind::AvLatest, RKind::AvNil, RKind::AvStale, RKind::GcLatest, RKind::GcNil, RKind::AsLatest, RKind::AsOlder, RKind::Gs]
    }
    pub fn name(&self) -> &'static str {
        match self {
            RKind::AvLatest => "AddVersion(latest0)",
            RKind::AvNil => "AddVersion(nil)",
            RKind::AvStale => "AddVersion(stale)",
            RKind::GcLatest => "GetChildVersion(latest0)",
            RKind::GcNil => "GetChildVersion(nil)",
            RKind::AsLatest => "AddSnapshot(latest0)",
            RKind::AsOlder => "AddSnapshot(older)",
            RKind::Gs => "GetSnapshot",
        }
    }
    pub fn parse(s: &str) -> Option<RKind> {
        RKind::all().into_iter().find(|k| k.name() == s)
    }
}

#[derive(Clone, Copy, Debug, PartialEq, Eq)]
pub enum Backend {
    Mem,
    SqlShared,
    SqlPerThread,
    /// one server instance per *process* on one directory: SQLite's cross-process (fcntl)
    /// locking, and nothing process-global is shared between the instances
    SqlPerProcess,
}

#[derive(Clone, Debug)]
pub struct Scenario {
    /// "unknown" | "empty" | "chain2+snapshot"
    pub init: String,
    pub threads: Vec<Vec<RKind>>,
    pub backend: Backend,
    pub http: bool,
    /// scheduling points also at every SQLite lock call
    pub lock_points: bool,
    /// an extra thread constructs a new SqliteStorage on the same directory meanwhile
    pub constructor_thread: bool,
    /// which client each thread speaks for (empty = all client A). Client A starts in the
    /// scenario's initial state; any other client is unknown to the server at the start.
    pub clients: Vec<u8>,
}

impl Scenario {
    pub fn to_json(&self) -> Value {
        json!({
            "init": self.init,
            "threads": self.threads.iter().map(|t| t.iter().map(|k| k.name()).collect::<Vec<_>>()).collect::<Vec<_>>(),
            "backend": match self.backend { Backend::Mem => "in-memory", Backend::SqlShared => "sqlite-one-instance", Backend::SqlPerThread => "sqlite-instance-per-thread", Backend::SqlPerProcess => "sqlite-instance-per-process" },
            "entry": if self.http { "http" } else { "library" },
            "lock_points": self.lock_points,
            "constructor_thread": self.constructor_thread,
            "clients": self.clients,
        })
    }
    pub fn from_json(v: &Value) -> Option<Scenario> {
        Some(Scenario {
            init: v["init"].as_str()?.to_string(),
            threads: v["threads"].as_array()?.iter().map(|t| t.as_array().unwrap().iter().filter_map(|k| RKind::parse(k.as_str().unwrap_or(""))).collect()).collect(),
            backend: match v["backend"].as_str()? {
                "in-memory" => Backend::Mem,
                "sqlite-one-instance" => Backend::SqlShared,
                "sqlite-instance-per-process" => Backend::SqlPerProcess,
                _ => Backend::SqlPerThread,
            },
            http: v["entry"].as_str()? == "http",
            lock_points: v["lock_points"].as_bool().unwrap_or(false),
            constructor_thread: v["constructor_thread"].as_bool().unwrap_or(false),
            clients: v["clients"].as_array().map(|a| a.iter().map(|x| x.as_u64().unwrap_or(0) as u8).collect()).unwrap_or_default(),
        })
    }
    pub fn key(&self) -> String {
        let mut ks: Vec<String> = self.threads.iter().map(|t| t.iter().map(|k| k.name()).collect::<Vec<_>>().join("+")).collect();
        ks.sort();
        let cl = if self.clients.iter().any(|c| *c != 0) { format!("|clients{:?}", self.clients) } else { String::new() };
        format!("{}|{}|{}|{}{}", self.to_json()["backend"].as_str().unwrap(), if self.http { "http" } else { "library" }, self.init, ks.join(" || "), cl)
    }
}

// ---- hooks ------------------------------------------------------------------------------------

struct SchedProbe;
impl Probe for SchedProbe {
    fn before(&self, call: Call) -> Option<anyhow::Error> {
        if let Some(s) = sched::global() {
            s.point(call.name());
        }
        None
    }
    /// The end of a transaction is a point too: whatever a request still does after letting go
    /// of the storage (filling a cache, building its answer) can be overtaken by a whole other
    /// request.
    fn after(&self, call: Call) -> Option<anyhow::Error> {
        if call == Call::DropTxn {
            if let Some(s) = sched::global() {
                s.point("after-txn");
            }
        }
        None
    }
}

thread_local! {
    static LAST_BUSY: RefCell<Option<WaitOn>> = const { RefCell::new(None) };
}

pub struct SchedVfs {
    pub lock_points: std::sync::atomic::AtomicBool,
}

impl VfsHook for SchedVfs {
    fn before(&self, call: &VfsCall) -> Option<i32> {
        if self.lock_points.load(Ordering::SeqCst) && sched::tid().is_some() {
            let is_lock = match call {
                VfsCall::Lock { .. } => true,
                VfsCall::ShmLock { flags, .. } => flags & 1 == 0,
                _ => false,
            };
            if is_lock {
                if let Some(s) = sched::global() {
                    s.point(call.name());
                }
            }
        }
        None
    }
    fn after(&self, call: &VfsCall, rc: i32) -> Option<i32> {
        if sched::tid().is_none() {
            return None;
        }
        let s = sched::global()?;
        match call {
            VfsCall::ShmLock { offset, n, flags, .. } => {
                if flags & 1 != 0 {
                    s.release(WaitOn::Shm { offset: *offset, n: *n });
                } else if rc == 5 {
                    LAST_BUSY.with(|c| *c.borrow_mut() = Some(WaitOn::Shm { offset: *offset, n: *n }));
                }
            }
            VfsCall::Lock { .. } => {
                if rc == 5 {
                    LAST_BUSY.with(|c| *c.borrow_mut() = Some(WaitOn::File));
                }
            }
            VfsCall::Unlock { .. } | VfsCall::Close { .. } | VfsCall::ShmUnmap { .. } => s.release(WaitOn::File),
            _ => {}
        }
        None
    }
    fn sleep(&self, _micros: i32) -> bool {
        if sched::tid().is_some() {
            if let Some(s) = sched::global() {
                let on = LAST_BUSY.with(|c| c.borrow_mut().take()).unwrap_or(WaitOn::Any);
                s.blocked(on, "sqlite-busy");
            }
        }
        true
    }
}

fn mem_lock_cb(ev: taskchampion_sync_server_core::verif_sync::LockEvent) {
    use taskchampion_sync_server_core::verif_sync::LockEvent::*;
    if sched::tid().is_none() {
        if ev == Blocked {
            // an unscheduled thread (controller) must never contend
            std::thread::yield_now();
        }
        return;
    }
    if let Some(s) = sched::global() {
        match ev {
            BeforeLock | Acquired => {}
            Blocked => s.blocked(WaitOn::MemMutex, "mutex"),
            Released => s.release(WaitOn::MemMutex),
        }
    }
}

pub fn install_hooks() -> Arc<SchedVfs> {
    crate::vfs::install();
    let h = Arc::new(SchedVfs { lock_points: std::sync::atomic::AtomicBool::new(false) });
    crate::vfs::set_hook(Some(h.clone()));
    taskchampion_sync_server_core::verif_sync::set_lock_callback(Some(mem_lock_cb));
    h
}

// ---- (de)serialisation for agent processes ---------------------------------------------------

fn hexs(b: &[u8]) -> String {
    b.iter().map(|x| format!("{x:02x}")).collect()
}
fn unhex(s: &str) -> Vec<u8> {
    (0..s.len() / 2).map(|i| u8::from_str_radix(&s[2 * i..2 * i + 2], 16).unwrap_or(0)).collect()
}

pub fn req_to_json(r: &Req) -> Value {
    match r {
        Req::AddVersion { c, parent, data } => json!({"t": "av", "c": c.to_string(), "id": parent.to_string(), "data": hexs(data)}),
        Req::GetChild { c, parent } => json!({"t": "gc", "c": c.to_string(), "id": parent.to_string()}),
        Req::AddSnapshot { c, v, data } => json!({"t": "as", "c": c.to_string(), "id": v.to_string(), "data": hexs(data)}),
        Req::GetSnapshot { c } => json!({"t": "gs", "c": c.to_string()}),
    }
}
pub fn req_from_json(v: &Value) -> Req {
    let c = Uuid::parse_str(v["c"].as_str().unwrap_or("")).unwrap_or_default();
    let id = v["id"].as_str().and_then(|s| Uuid::parse_str(s).ok()).unwrap_or_default();
    let data = unhex(v["data"].as_str().unwrap_or(""));
    match v["t"].as_str().unwrap_or("") {
        "av" => Req::AddVersion { c, parent: id, data },
        "gc" => Req::GetChild { c, parent: id },
        "as" => Req::AddSnapshot { c, v: id, data },
        _ => Req::GetSnapshot { c },
    }
}
pub fn resp_to_json(r: &Resp) -> Value {
    use crate::model::Urg;
    match r {
        Resp::AvOk { id, urgency } => json!({"t": "avok", "id": id.to_string(), "u": match urgency { Urg::None => 0, Urg::Low => 1, Urg::High => 2 }}),
        Resp::AvConflict { expected } => json!({"t": "conflict", "id": expected.to_string()}),
        Resp::GcFound { id, parent, data } => json!({"t": "found", "id": id.to_string(), "p": parent.to_string(), "data": hexs(data)}),
        Resp::GcNotFound => json!({"t": "notfound"}),
        Resp::GcGone => json!({"t": "gone"}),
        Resp::NoSuchClient => json!({"t": "nosuch"}),
        Resp::SnapOk => json!({"t": "snapok"}),
        Resp::GsFound { id, data } => json!({"t": "snap", "id": id.to_string(), "data": hexs(data)}),
        Resp::GsNone => json!({"t": "nosnap"}),
        Resp::Fail(e) => json!({"t": "fail", "e": e}),
        Resp::Panic(e) => json!({"t": "panic", "e": e}),
        Resp::Undecodable(e) => json!({"t": "undecodable", "e": e}),
    }
}
pub fn resp_from_json(v: &Value) -> Resp {
    use crate::model::Urg;
    let id = |k: &str| v[k].as_str().and_then(|s| Uuid::parse_str(s).ok()).unwrap_or_default();
    let e = v["e"].as_str().unwrap_or("").to_string();
    match v["t"].as_str().unwrap_or("") {
        "avok" => Resp::AvOk { id: id("id"), urgency: match v["u"].as_u64().unwrap_or(0) { 0 => Urg::None, 1 => Urg::Low, _ => Urg::High } },
        "conflict" => Resp::AvConflict { expected: id("id") },
        "found" => Resp::GcFound { id: id("id"), parent: id("p"), data: unhex(v["data"].as_str().unwrap_or("")) },
        "notfound" => Resp::GcNotFound,
        "gone" => Resp::GcGone,
        "nosuch" => Resp::NoSuchClient,
        "snapok" => Resp::SnapOk,
        "snap" => Resp::GsFound { id: id("id"), data: unhex(v["data"].as_str().unwrap_or("")) },
        "nosnap" => Resp::GsNone,
        "fail" => Resp::Fail(e),
        "panic" => Resp::Panic(e),
        _ => Resp::Undecodable(e),
    }
}

/// One request executed by the real code in this process (library or in-process HTTP).
fn do_request(server: &Option<Arc<Server>>, app: &Option<HttpApp>, req: &Req) -> Resp {
    match (server, app) {
        (Some(s), _) => lib_call(s, req),
        (_, Some(a)) => {
            let hr = http_req_for(req, 1);
            match std::panic::catch_unwind(std::panic::AssertUnwindSafe(|| a.send(&hr))) {
                Ok(Ok(raw)) => decode_http(req, &raw),
                Ok(Err(e)) => Resp::Undecodable(e),
                Err(e) => Resp::Panic(crate::sut::panic_msg(e)),
            }
        }
        _ => unreachable!(),
    }
}

/// Agent process (`tcss-verif worker sched-agent`): one server instance of its own; executes the
/// requests it is told to, reporting every scheduling event to the coordinator and waiting for
/// its "go" (see `sched::RemoteSched`).
pub fn agent_main() {
    use std::io::{BufRead, Write};
    let vfs = install_hooks();
    let remote: Arc<dyn sched::SchedApi> = Arc::new(sched::RemoteSched { io: Mutex::new((std::io::stdout(), std::io::stdin())) });
    let say = |v: Value| {
        let mut o = std::io::stdout().lock();
        let _ = writeln!(o, "{}", v);
        let _ = o.flush();
    };
    loop {
        let mut line = String::new();
        if std::io::stdin().lock().read_line(&mut line).unwrap_or(0) == 0 {
            return;
        }
        let Ok(cmd) = serde_json::from_str::<Value>(&line) else { continue };
        if cmd["cmd"] != "run" {
            continue;
        }
        let dir = std::path::PathBuf::from(cmd["dir"].as_str().unwrap_or(""));
        let http = cmd["http"].as_bool().unwrap_or(false);
        let construct_only = cmd["construct_only"].as_bool().unwrap_or(false);
        vfs.lock_points.store(cmd["lock_points"].as_bool().unwrap_or(false), Ordering::SeqCst);
        let reqs: Vec<Req> = cmd["reqs"].as_array().map(|a| a.iter().map(req_from_json).collect()).unwrap_or_default();
        // this process's own instance (unscheduled: no tid yet)
        let probe: Arc<dyn Probe> = Arc::new(SchedProbe);
        let mut server = None;
        let mut app = None;
        if !construct_only {
            let st: Arc<dyn Storage> = match SqliteStorage::new(&dir) {
                Ok(s) => Arc::new(s),
                Err(e) => {
                    say(json!({"ev": "ready", "error": format!("{e:#}")}));
                    continue;
                }
            };
            if http {
                app = Some(HttpApp::new(&WebServer::new(server_config(CFG), None, Inst::new(st, probe.clone()))));
            } else {
                server = Some(Arc::new(Server::new(server_config(CFG), Inst::new(st, probe.clone()))));
            }
        }
        say(json!({"ev": "ready"}));
        // wait for the first "go" (the coordinator's `start`)
        let mut l2 = String::new();
        let _ = std::io::stdin().lock().read_line(&mut l2);
        sched::set_global(Some(remote.clone()));
        sched::set_tid(Some(0));
        if construct_only {
            remote.point("construct");
            let _ = std::panic::catch_unwind(|| SqliteStorage::new(&dir));
        }
        for r in &reqs {
            remote.point("request");
            let resp = do_request(&server, &app, r);
            say(json!({"ev": "ret", "resp": resp_to_json(&resp)}));
        }
        sched::set_tid(None);
        sched::set_global(None);
        drop(server);
        drop(app);
        say(json!({"ev": "done"}));
    }
}

/// Coordinator side of one agent process.
pub struct Agent {
    child: std::process::Child,
    stdin: std::process::ChildStdin,
    stdout: std::io::BufReader<std::process::ChildStdout>,
}

impl Agent {
    pub fn spawn() -> Agent {
        let exe = std::env::current_exe().expect("current_exe");
        let mut ch = std::process::Command::new(exe).arg("worker").arg("sched-agent").stdin(std::process::Stdio::piped()).stdout(std::process::Stdio::piped()).stderr(std::process::Stdio::inherit()).spawn().expect("spawn agent");
        let stdin = ch.stdin.take().unwrap();
        let stdout = std::io::BufReader::new(ch.stdout.take().unwrap());
        Agent { child: ch, stdin, stdout }
    }
    fn send(&mut self, v: &Value) {
        use std::io::Write;
        let _ = writeln!(self.stdin, "{}", v);
        let _ = self.stdin.flush();
    }
    fn recv(&mut self) -> Option<Value> {
        use std::io::BufRead;
        let mut line = String::new();
        match self.stdout.read_line(&mut line) {
            Ok(0) | Err(_) => None,
            Ok(_) => serde_json::from_str(&line).ok(),
        }
    }
}

impl Drop for Agent {
    fn drop(&mut self) {
        let _ = self.child.kill();
        let _ = self.child.wait();
    }
}

// ---- one execution ----------------------------------------------------------------------------

#[derive(Clone, Debug)]
pub struct Observed {
    pub thread: usize,
    pub kind: RKind,
    pub req: Req,
    pub resp: Resp,
    pub inv: usize,
    pub ret: usize,
}

pub struct Initial {
    pub model: Model,
    pub tab: SymTab,
    pub files: Option<crate::sut::DirImage>,
}

const CFG: Config = Config { days: 14, versions: 100 };

fn init_history(init: &str) -> Vec<crate::sut::SymOp> {
    use crate::sut::SymOp;
    match init {
        "unknown" => vec![],
        "empty" => vec![],
        // three versions, snapshot at the first: both the latest and the one before it are
        // acceptable for a new snapshot, so two AddSnapshot requests genuinely compete
        "chain3+snapshot" => vec![
            SymOp::AddVersion { c: 0, parent: NIL, data: b"v1".to_vec() },
            SymOp::AddSnapshot { c: 0, v: 1, data: b"snap1".to_vec() },
            SymOp::AddVersion { c: 0, parent: 1, data: b"v2".to_vec() },
            SymOp::AddVersion { c: 0, parent: 2, data: b"v3".to_vec() },
        ],
        _ => vec![
            SymOp::AddVersion { c: 0, parent: NIL, data: b"v1".to_vec() },
            SymOp::AddSnapshot { c: 0, v: 1, data: b"snap1".to_vec() },
            SymOp::AddVersion { c: 0, parent: 1, data: b"v2".to_vec() },
        ],
    }
}

/// Build the initial state on `storage` (unscheduled: the calling thread has no tid).
fn build_initial(storage: &Arc<dyn Storage>, init: &str, seed: u64) -> (Model, SymTab) {
    let server = Server::new(server_config(CFG), Inst::plain(storage.clone()));
    let mut model = Model::new(CFG);
    let mut tab = SymTab::new(seed);
    let c = client_uuid(seed, 0);
    if init != "unknown" {
        let mut txn = storage.txn(c).expect("txn");
        txn.new_client(Uuid::nil()).expect("new_client");
        txn.commit().expect("commit");
        drop(txn);
        model.clients.insert(0, Default::default());
    }
    for op in init_history(init) {
        match op {
            crate::sut::SymOp::AddVersion { parent, data, .. } => {
                let ns = model.next_sid;
                match lib_call(&server, &Req::AddVersion { c, parent: tab.uuid(parent), data: data.clone() }) {
                    Resp::AvOk { id, .. } => tab.bind(ns, id),
                    other => panic!("initial history failed: {:?}", other),
                }
                model.add_version(0, parent, &data, true);
            }
            crate::sut::SymOp::AddSnapshot { v, data, .. } => {
                let r = lib_call(&server, &Req::AddSnapshot { c, v: tab.uuid(v), data: data.clone() });
                assert_eq!(r, Resp::SnapOk);
                model.add_snapshot_apply(0, v, &data, true);
            }
            _ => {}
        }
    }
    (model, tab)
}

fn concretize(kind: RKind, model: &Model, tab: &mut SymTab, seed: u64, thread: usize, idx: usize, cid: u8) -> Req {
    let c = client_uuid(seed, cid);
    let cl = model.client(cid);
    let latest = cl.map(|c| c.latest()).unwrap_or(NIL);
    // "older": the version before the latest one
    let first = cl.and_then(|c| if c.chain.len() >= 2 { Some(c.chain[c.chain.len() - 2].id) } else { c.chain.first().map(|v| v.id) });
    let payload = format!("t{thread}r{idx}").into_bytes();
    match kind {
        RKind::AvLatest => Req::AddVersion { c, parent: tab.uuid(latest), data: payload },
        RKind::AvNil => Req::AddVersion { c, parent: Uuid::nil(), data: payload },
        RKind::AvStale => Req::AddVersion { c, parent: det_uuid(seed, 11, 1), data: payload },
        RKind::GcLatest => Req::GetChild { c, parent: tab.uuid(latest) },
        RKind::GcNil => Req::GetChild { c, parent: Uuid::nil() },
        RKind::AsLatest => Req::AddSnapshot { c, v: tab.uuid(latest), data: payload },
        RKind::AsOlder => Req::AddSnapshot { c, v: first.map(|f| tab.uuid(f)).unwrap_or(det_uuid(seed, 11, 2)), data: payload },
        RKind::Gs => Req::GetSnapshot { c },
    }
}

pub struct Execution {
    pub observed: Vec<Observed>,
    pub trace: Vec<ChoicePoint>,
    pub events: Vec<(usize, String)>,
    pub abort: Option<String>,
    pub final_dump: crate::sut::Dump,
    pub tab0: SymTab,
    pub model0: Model,
}

pub struct Runner {
    pub sc: Scenario,
    pub seed: u64,
    scratch: Option<Scratch>,
    sql_files: Option<crate::sut::DirImage>,
    sql_init: Option<(Model, SymTab)>,
    pub vfs: Arc<SchedVfs>,
    agents: Mutex<Vec<Agent>>,
}

impl Runner {
    pub fn new(sc: &Scenario, seed: u64, vfs: Arc<SchedVfs>) -> Runner {
        let mut r = Runner { sc: sc.clone(), seed, scratch: None, sql_files: None, sql_init: None, vfs, agents: Mutex::new(vec![]) };
        if sc.backend == Backend::SqlPerProcess {
            let n = sc.threads.len() + if sc.constructor_thread { 1 } else { 0 };
            let mut a = r.agents.lock().unwrap();
            for _ in 0..n {
                a.push(Agent::spawn());
            }
        }
        if sc.backend != Backend::Mem {
            let s = Scratch::new("sched");
            let st: Arc<dyn Storage> = Arc::new(SqliteStorage::new(s.path()).expect("sqlite"));
            let (m, t) = build_initial(&st, &sc.init, seed);
            drop(st);
            r.sql_files = Some(crate::sut::read_dir_image(s.path()));
            r.sql_init = Some((m, t));
            r.scratch = Some(s);
        }
        r
    }

    pub fn run(&self, prefix: &[usize]) -> Execution {
        let sc = &self.sc;
        let nreq_threads = sc.threads.len();
        let nthreads = nreq_threads + if sc.constructor_thread { 1 } else { 0 };
        // ---- initial state
        let probe: Arc<dyn Probe> = Arc::new(SchedProbe);
        let mut storages: Vec<Arc<dyn Storage>> = vec![];
        let (model0, mut tab0);
        let dir = self.scratch.as_ref().map(|s| s.path().to_path_buf());
        match sc.backend {
            Backend::Mem => {
                let st: Arc<dyn Storage> = Arc::new(InMemoryStorage::new());
                let (m, t) = build_initial(&st, &sc.init, self.seed);
                model0 = m;
                tab0 = t;
                for _ in 0..nreq_threads {
                    storages.push(st.clone());
                }
            }
            Backend::SqlShared | Backend::SqlPerThread | Backend::SqlPerProcess => {
                let d = dir.clone().unwrap();
                crate::sut::write_dir_image(&d, self.sql_files.as_ref().unwrap());
                let (m, t) = self.sql_init.clone().unwrap();
                model0 = m;
                tab0 = t;
                if sc.backend == Backend::SqlPerProcess {
                    // the coordinator's own handle is only used for the final dump
                    storages.push(Arc::new(SqliteStorage::new(&d).expect("sqlite")));
                } else if sc.backend == Backend::SqlShared {
                    let st: Arc<dyn Storage> = Arc::new(SqliteStorage::new(&d).expect("sqlite"));
                    for _ in 0..nreq_threads {
                        storages.push(st.clone());
                    }
                } else {
                    for _ in 0..nreq_threads {
                        storages.push(Arc::new(SqliteStorage::new(&d).expect("sqlite")));
                    }
                }
            }
        }
        // front ends: one shared Server / WebServer per distinct storage instance
        let mut servers: Vec<Arc<Server>> = vec![];
        let mut webs: Vec<WebServer> = vec![];
        for (i, st) in storages.iter().enumerate() {
            if sc.backend == Backend::SqlPerProcess {
                break;
            }
            let shared = sc.backend != Backend::SqlPerThread && i > 0;
            if sc.http {
                if shared {
                    webs.push(webs[0].clone());
                } else {
                    webs.push(WebServer::new(server_config(CFG), None, Inst::new(st.clone(), probe.clone())));
                }
            } else if shared {
                servers.push(servers[0].clone());
            } else {
                servers.push(Arc::new(Server::new(server_config(CFG), Inst::new(st.clone(), probe.clone()))));
            }
        }
        // ids the requests quote that are not part of the initial state get symbols of their own
        tab0.bind(9001, det_uuid(self.seed, 11, 1));
        tab0.bind(9002, det_uuid(self.seed, 11, 2));
        // requests
        let mut reqs: Vec<Vec<(RKind, Req)>> = vec![];
        for (t, ks) in sc.threads.iter().enumerate() {
            let cid = sc.clients.get(t).copied().unwrap_or(0);
            reqs.push(ks.iter().enumerate().map(|(i, k)| (*k, concretize(*k, &model0, &mut tab0, self.seed, t, i, cid))).collect());
        }
        self.vfs.lock_points.store(sc.lock_points, Ordering::SeqCst);
        let sched = Sched::new(nthreads, prefix.to_vec(), 4000);
        sched::set_global(Some(sched.clone()));
        let clock = Arc::new(AtomicUsize::new(0));
        let observed: Arc<Mutex<Vec<Observed>>> = Arc::new(Mutex::new(vec![]));
        let mut handles = vec![];
        let mut agent_handles: Vec<std::thread::JoinHandle<Agent>> = vec![];
        if sc.backend == Backend::SqlPerProcess {
            let mut ags: Vec<Agent> = std::mem::take(&mut *self.agents.lock().unwrap());
            while ags.len() < nthreads {
                ags.push(Agent::spawn());
            }
            // every agent builds its own instance first, one after the other (unscheduled)
            let d = dir.clone().unwrap();
            for (t, a) in ags.iter_mut().enumerate() {
                let is_ctor = t >= nreq_threads;
                let rq: Vec<Value> = if is_ctor { vec![] } else { reqs[t].iter().map(|(_, r)| req_to_json(r)).collect() };
                a.send(&json!({"cmd": "run", "dir": d.display().to_string(), "http": sc.http, "lock_points": sc.lock_points, "construct_only": is_ctor, "reqs": rq}));
                match a.recv() {
                    Some(v) if v["ev"] == "ready" && v["error"].is_null() => {}
                    other => {
                        // replace a broken agent; the execution will report it as a failure
                        eprintln!("sched agent not ready: {:?}", other);
                    }
                }
            }
            for (t, mut agent) in ags.into_iter().enumerate() {
                let sched = sched.clone();
                let clock = clock.clone();
                let observed = observed.clone();
                let my: Vec<(RKind, Req)> = if t < nreq_threads { reqs[t].clone() } else { vec![] };
                agent_handles.push(std::thread::spawn(move || {
                    sched::set_tid(Some(t));
                    sched.start(t);
                    agent.send(&json!("go"));
                    let mut idx = 0usize;
                    let mut inv = 0usize;
                    loop {
                        let Some(ev) = agent.recv() else {
                            // the agent process died: every outstanding request failed
                            while idx < my.len() {
                                let ret = clock.fetch_add(1, Ordering::SeqCst);
                                observed.lock().unwrap().push(Observed { thread: t, kind: my[idx].0, req: my[idx].1.clone(), resp: Resp::Panic("server process died".into()), inv, ret });
                                idx += 1;
                            }
                            agent = Agent::spawn();
                            break;
                        };
                        match ev["ev"].as_str().unwrap_or("") {
                            "point" => {
                                let label = ev["label"].as_str().unwrap_or("").to_string();
                                sched.point(&label);
                                if label == "request" {
                                    inv = clock.fetch_add(1, Ordering::SeqCst);
                                }
                                agent.send(&json!("go"));
                            }
                            "blocked" => {
                                sched.blocked(WaitOn::from_json(&ev["on"]), ev["label"].as_str().unwrap_or(""));
                                agent.send(&json!("go"));
                            }
                            "release" => sched.release(WaitOn::from_json(&ev["what"])),
                            "ret" => {
                                let ret = clock.fetch_add(1, Ordering::SeqCst);
                                if idx < my.len() {
                                    observed.lock().unwrap().push(Observed { thread: t, kind: my[idx].0, req: my[idx].1.clone(), resp: resp_from_json(&ev["resp"]), inv, ret });
                                    idx += 1;
                                }
                            }
                            "done" => break,
                            _ => {}
                        }
                    }
                    sched.finish();
                    sched::set_tid(None);
                    agent
                }));
            }
        }
        for t in 0..nreq_threads {
            if sc.backend == Backend::SqlPerProcess {
                break;
            }
            let sched = sched.clone();
            let clock = clock.clone();
            let observed = observed.clone();
            let my = reqs[t].clone();
            let server = servers.get(t).cloned();
            let web = webs.get(t).cloned();
            handles.push(std::thread::spawn(move || {
                let app = web.as_ref().map(HttpApp::new);
                sched::set_tid(Some(t));
                sched.start(t);
                for (kind, req) in my {
                    sched.point("request");
                    let inv = clock.fetch_add(1, Ordering::SeqCst);
                    let resp = match (&server, &app) {
                        (Some(s), _) => lib_call(s, &req),
                        (_, Some(a)) => {
                            let hr = http_req_for(&req, 1);
                            match std::panic::catch_unwind(std::panic::AssertUnwindSafe(|| a.send(&hr))) {
                                Ok(Ok(raw)) => decode_http(&req, &raw),
                                Ok(Err(e)) => Resp::Undecodable(e),
                                Err(e) => Resp::Panic(crate::sut::panic_msg(e)),
                            }
                        }
                        _ => unreachable!(),
                    };
                    let ret = clock.fetch_add(1, Ordering::SeqCst);
                    observed.lock().unwrap().push(Observed { thread: t, kind, req, resp, inv, ret });
                }
                sched.finish();
                sched::set_tid(None);
            }));
        }
        if sc.constructor_thread && sc.backend != Backend::SqlPerProcess {
            let sched = sched.clone();
            let d = dir.clone().unwrap();
            let t = nreq_threads;
            handles.push(std::thread::spawn(move || {
                sched::set_tid(Some(t));
                sched.start(t);
                sched.point("construct");
                let _ = std::panic::catch_unwind(|| SqliteStorage::new(&d));
                sched.finish();
                sched::set_tid(None);
            }));
        }
        sched.kickoff();
        let rr = sched.wait_all();
        for h in handles {
            let _ = h.join();
        }
        {
            let mut back = self.agents.lock().unwrap();
            for h in agent_handles {
                if let Ok(a) = h.join() {
                    back.push(a);
                }
            }
        }
        sched::set_global(None);
        self.vfs.lock_points.store(false, Ordering::SeqCst);
        // ---- final state (unscheduled)
        drop(servers);
        drop(webs);
        let obs = observed.lock().unwrap().clone();
        let mut ids = tab0.all_uuids();
        for o in &obs {
            if let Resp::AvOk { id, .. } = &o.resp {
                ids.push(*id);
            }
        }
        let clients = [client_uuid(self.seed, 0), client_uuid(self.seed, 1)];
        let mut final_dump = dump_api(&storages[0], &clients, &ids);
        if let Some(d) = &dir {
            let raw = dump_sql_raw(d);
            if raw.versions != final_dump.versions || raw.clients != final_dump.clients {
                // rows under ids no response ever carried (e.g. orphaned versions): trust the raw view
                final_dump.versions = raw.versions;
                final_dump.clients = raw.clients;
            }
            final_dump.anomalies.extend(raw.anomalies);
        }
        Execution { observed: obs, trace: rr.trace, events: rr.events, abort: rr.abort, final_dump, tab0, model0 }
    }
}

// ---- oracle -------------------------------------------------------------------------------------

fn symbolize(tab: &mut SymTab, resp: &Resp, new_sid: u32) -> SResp {
    match resp.clone() {
        Resp::AvOk { id, urgency } => {
            if let Some(s) = tab.sid(id) {
                SResp::AvOk { id: s, urgency, fresh: false }
            } else {
                tab.bind(new_sid, id);
                SResp::AvOk { id: new_sid, urgency, fresh: true }
            }
        }
        Resp::AvConflict { expected } => SResp::AvConflict { expected: tab.sid_or_unknown(expected) },
        Resp::GcFound { id, parent, data } => SResp::GcFound { id: tab.sid_or_unknown(id), parent: tab.sid_or_unknown(parent), data },
        Resp::GcNotFound => SResp::GcNotFound,
        Resp::GcGone => SResp::GcGone,
        Resp::NoSuchClient => SResp::NoSuchClient,
        Resp::SnapOk => SResp::SnapOk,
        Resp::GsFound { id, data } => SResp::GsFound { id: tab.sid_or_unknown(id), data },
        Resp::GsNone => SResp::GsNone,
        Resp::Fail(e) => SResp::Fail(e),
        Resp::Panic(e) => SResp::Panic(e),
        Resp::Undecodable(e) => SResp::Undecodable(e),
    }
}

fn model_apply(m: &mut Model, tab: &SymTab, req: &Req, http: bool, seed: u64) -> MResp {
    let sid = |u: &Uuid| tab.sid(*u).unwrap_or(UNKNOWN_SID - 1);
    let cu = match req {
        Req::AddVersion { c, .. } | Req::GetChild { c, .. } | Req::AddSnapshot { c, .. } | Req::GetSnapshot { c } => *c,
    };
    let cid: u8 = if cu == client_uuid(seed, 1) { 1 } else { 0 };
    match req {
        Req::AddVersion { parent, data, .. } => m.add_version(cid, sid(parent), data, http),
        Req::GetChild { parent, .. } => m.get_child(cid, sid(parent)),
        Req::AddSnapshot { v, data, .. } => match m.snapshot_decision(cid, sid(v)) {
            None => MResp::NoSuchClient,
            Some(d) => {
                // the unspecified corner (v = non-nil chain base) does not occur in these scenarios
                m.add_snapshot_apply(cid, sid(v), data, d == SnapDecision::Replace);
                MResp::SnapOk
            }
        },
        Req::GetSnapshot { .. } => m.get_snapshot(cid),
    }
}

fn permutations(n: usize) -> Vec<Vec<usize>> {
    fn rec(cur: &mut Vec<usize>, used: &mut Vec<bool>, n: usize, out: &mut Vec<Vec<usize>>) {
        if cur.len() == n {
            out.push(cur.clone());
            return;
        }
        for i in 0..n {
            if !used[i] {
                used[i] = true;
                cur.push(i);
                rec(cur, used, n, out);
                cur.pop();
                used[i] = false;
            }
        }
    }
    let mut out = vec![];
    rec(&mut vec![], &mut vec![false; n], n, &mut out);
    out
}

pub struct Verdict {
    pub ok: bool,
    pub class: String,
    pub msg: String,
    pub outcome: String,
}

pub fn judge(ex: &Execution, http: bool, seed: u64) -> Verdict {
    let outcome = {
        let mut o: Vec<String> = ex.observed.iter().map(|x| format!("T{}:{}={}", x.thread, x.kind.name(), match &x.resp { Resp::AvOk { .. } => "accepted".to_string(), Resp::AvConflict { .. } => "conflict".into(), Resp::GcFound { .. } => "found".into(), Resp::GcNotFound => "not-found".into(), Resp::GcGone => "gone".into(), Resp::NoSuchClient => "no-such-client".into(), Resp::SnapOk => "ok".into(), Resp::GsFound { data, .. } => format!("snapshot({})", String::from_utf8_lossy(data)), Resp::GsNone => "no-snapshot".into(), Resp::Fail(_) => "ERROR".into(), Resp::Panic(_) => "PANIC".into(), Resp::Undecodable(_) => "UNDECODABLE".into() })).collect();
        o.sort();
        o.join(", ")
    };
    if let Some(a) = &ex.abort {
        return Verdict { ok: false, class: if a.contains("deadlock") { "deadlock".into() } else { "aborted".into() }, msg: a.clone(), outcome };
    }
    let n = ex.observed.len();
    let mut tried = 0;
    let mut why_not: Vec<String> = vec![];
    'perm: for p in permutations(n) {
        // real-time order
        for a in 0..n {
            for b in a + 1..n {
                let (x, y) = (&ex.observed[p[a]], &ex.observed[p[b]]);
                if y.ret < x.inv {
                    continue 'perm;
                }
            }
        }
        tried += 1;
        let mut m = ex.model0.clone();
        let mut tab = ex.tab0.clone();
        for &i in &p {
            let o = &ex.observed[i];
            let ns = m.next_sid;
            let want = model_apply(&mut m, &tab, &o.req, http, seed);
            let got = symbolize(&mut tab, &o.resp, ns);
            if let Err(e) = resp_matches(&want, &got, http) {
                if why_not.len() < 6 {
                    why_not.push(format!("order {:?}: {} of T{}: {e}", p.iter().map(|i| format!("T{}.{}", ex.observed[*i].thread, ex.observed[*i].kind.name())).collect::<Vec<_>>(), o.kind.name(), o.thread));
                }
                continue 'perm;
            }
        }
        // final state
        let mut sd = crate::model::SymDump::default();
        let mut an = ex.final_dump.anomalies.clone();
        for (c, (latest, snap)) in &ex.final_dump.clients {
            let cid: u8 = if *c == client_uuid(seed, 1) { 1 } else { 0 };
            sd.clients.insert(cid, crate::model::SymClient { latest: tab.sid_or_unknown(*latest), snapshot: snap.as_ref().map(|(v, since, _ts, data)| crate::model::SymSnap { version: tab.sid_or_unknown(*v), since: *since, age_days: 0, data: data.clone() }) });
        }
        for (c, v, pa, data) in &ex.final_dump.versions {
            let cid: u8 = if *c == client_uuid(seed, 1) { 1 } else { 0 };
            let vs = tab.sid_or_unknown(*v);
            if vs == UNKNOWN_SID {
                an.push(format!("stored version {v} was never acknowledged"));
            }
            sd.versions.insert((cid, vs, tab.sid_or_unknown(*pa), data.clone()));
        }
        match dump_matches(&m, &sd, &an) {
            Ok(()) => return Verdict { ok: true, class: "linearizable".into(), msg: String::new(), outcome },
            Err(e) => {
                if why_not.len() < 6 {
                    why_not.push(format!("order {:?}: responses fit, final state does not: {e}", p.iter().map(|i| format!("T{}.{}", ex.observed[*i].thread, ex.observed[*i].kind.name())).collect::<Vec<_>>()));
                }
            }
        }
    }
    // classify
    let errs: Vec<&Observed> = ex.observed.iter().filter(|o| o.resp.is_failure()).collect();
    let mut parents = std::collections::HashSet::new();
    let mut fork = false;
    for (c, _, p, _) in &ex.final_dump.versions {
        if !parents.insert((*c, *p)) {
            fork = true;
        }
    }
    let accepted = ex.observed.iter().filter(|o| matches!(o.resp, Resp::AvOk { .. })).count();
    let class = if !errs.is_empty() {
        "server-error-under-overlap"
    } else if fork {
        "two-accepted-on-one-parent"
    } else if accepted > 0 && ex.final_dump.versions.len() < ex.model0.dump().versions.len() + accepted {
        "accepted-version-orphaned"
    } else {
        "not-linearizable"
    };
    let mut msg = format!("no one-at-a-time order of the {} requests (of {} consistent with real time) explains the answers and the final state. Answers: {}.", n, tried, outcome);
    if let Some(e) = errs.first() {
        msg.push_str(&format!(" Error answer: {:?}.", e.resp));
    }
    msg.push_str(&format!(" Final state: {} versions stored. Tried: {}", ex.final_dump.versions.len(), why_not.join(" | ")));
    Verdict { ok: false, class: class.into(), msg, outcome }
}

// ---- DFS ------------------------------------------------------------------------------------------

pub struct ScenarioResult {
    pub executions: u64,
    pub by_preemptions: Vec<u64>,
    pub max_trace: usize,
    pub outcomes: std::collections::BTreeMap<String, u64>,
    pub violations: Vec<(String, String, Vec<usize>, Vec<(usize, String)>)>,
    pub capped: bool,
    pub nondeterminism: Option<String>,
    pub blocked_events: u64,
}

pub fn explore(runner: &Runner, bound: usize, max_exec: u64) -> ScenarioResult {
    let mut res = ScenarioResult { executions: 0, by_preemptions: vec![0; bound + 1], max_trace: 0, outcomes: Default::default(), violations: vec![], capped: false, nondeterminism: None, blocked_events: 0 };
    let mut stack: Vec<Vec<usize>> = vec![vec![]];
    let mut first = true;
    while let Some(prefix) = stack.pop() {
        if res.executions >= max_exec {
            res.capped = true;
            break;
        }
        let ex = runner.run(&prefix);
        res.executions += 1;
        if first {
            // determinism self-check: the same schedule twice gives the same events and answers
            first = false;
            let ex2 = runner.run(&prefix);
            let k1: Vec<_> = ex.events.clone();
            let k2: Vec<_> = ex2.events.clone();
            let o1 = judge(&ex, runner.sc.http, runner.seed).outcome;
            let o2 = judge(&ex2, runner.sc.http, runner.seed).outcome;
            if k1 != k2 || o1 != o2 {
                res.nondeterminism = Some(format!("the default schedule replayed twice differs: {} vs {} events, outcomes {o1:?} vs {o2:?}", k1.len(), k2.len()));
                break;
            }
        }
        if let Some(a) = &ex.abort {
            if a.contains("replay divergence") || a.contains("stalled") {
                res.nondeterminism = Some(a.clone());
                break;
            }
        }
        res.max_trace = res.max_trace.max(ex.trace.len());
        res.blocked_events += ex.events.iter().filter(|(_, l)| l.starts_with("blocked")).count() as u64;
        let pre = sched::preemptions(&ex.trace, ex.trace.len());
        if pre <= bound {
            res.by_preemptions[pre] += 1;
        }
        let v = judge(&ex, runner.sc.http, runner.seed);
        *res.outcomes.entry(v.outcome.clone()).or_insert(0) += 1;
        if !v.ok && res.violations.len() < 50 {
            let choices: Vec<usize> = ex.trace.iter().map(|p| p.chosen).collect();
            res.violations.push((v.class.clone(), v.msg.clone(), choices, ex.events.clone()));
        }
        // children
        for i in prefix.len()..ex.trace.len() {
            let p = &ex.trace[i];
            for alt in 1..p.enabled.len() {
                let cost = sched::preemptions(&ex.trace, i) + if p.running_enabled { 1 } else { 0 };
                if cost <= bound {
                    let mut np: Vec<usize> = ex.trace[..i].iter().map(|q| q.chosen).collect();
                    np.push(alt);
                    stack.push(np);
                }
            }
        }
    }
    res
}

/// Worker: task = {scenario, bound, max_exec, replay?: [choices]}
pub fn worker_main() {
    crate::pool::serve(|pv| {
        let seed = pv["seed"].as_u64().unwrap_or(1);
        let vfs = install_hooks();
        move |task: &Value| -> Value {
            let Some(sc) = Scenario::from_json(&task["scenario"]) else { return json!({"error": "bad scenario"}) };
            let bound = task["bound"].as_u64().unwrap_or(2) as usize;
            let max_exec = task["max_exec"].as_u64().unwrap_or(2000);
            let vfs2 = vfs.clone();
            let r = std::panic::catch_unwind(std::panic::AssertUnwindSafe(|| {
                let runner = Runner::new(&sc, seed, vfs2);
                if let Some(ch) = task["replay"].as_array() {
                    let prefix: Vec<usize> = ch.iter().map(|x| x.as_u64().unwrap_or(0) as usize).collect();
                    let e1 = runner.run(&prefix);
                    let e2 = runner.run(&prefix);
                    let v1 = judge(&e1, sc.http, seed);
                    let v2 = judge(&e2, sc.http, seed);
                    return json!({"replay": true, "deterministic": e1.events == e2.events && v1.outcome == v2.outcome, "ok": v1.ok, "class": v1.class, "msg": v1.msg, "events": e1.events.iter().map(|(t, l)| format!("T{t}:{l}")).collect::<Vec<_>>()});
                }
                let res = explore(&runner, bound, max_exec);
                json!({
                    "executions": res.executions, "by_preemptions": res.by_preemptions, "max_choice_points": res.max_trace, "capped": res.capped,
                    "outcomes": res.outcomes, "nondeterminism": res.nondeterminism, "blocked_events": res.blocked_events,
                    "violations": res.violations.iter().map(|(c, m, ch, ev)| json!({"class": c, "msg": m, "choices": ch, "events": ev.iter().map(|(t, l)| format!("T{t}:{l}")).collect::<Vec<_>>()})).collect::<Vec<_>>(),
                })
            }));
            match r {
                Ok(v) => v,
                Err(e) => json!({"error": format!("sched worker panicked: {}", crate::sut::panic_msg(e))}),
            }
        }
    });
}
