//! E-SEQ — explicit-state exploration of request histories over the real code (DESIGN.md 4.1).
//!
//! Level-synchronous BFS. The transition function is the real `Server` / actix handler /
//! storage code; the reference model is compared on every transition; monitors (one tag per
//! property) are evaluated in every state and on every transition.

use crate::alphabet::{canon, model_step, to_symop, AOp, Alphabet, Expect, IdClass};
use crate::http::RawHttp;
use crate::model::{Cid, Config, MResp, Model, Sid, SnapDecision, SymDump, Urg, NIL};
use crate::sut::{
    dump_matches, resp_matches, show_bytes, DirImage, Dump, SResp, SutSpec, SymOp, SymSut,
    SymTab, UNKNOWN_SID,
};
use serde_json::{json, Value};
use std::collections::{BTreeMap, BTreeSet, HashSet};
use std::time::Instant;
use taskchampion_sync_server_core::NIL_VERSION_ID;

#[derive(Clone, Debug)]
pub struct SeqParams {
    pub alphabet: Alphabet,
    pub cfg: Config,
    pub specs: Vec<SutSpec>,
    pub max_depth: usize,
    /// histories up to this length are never merged
    pub unmerged_depth: usize,
    /// monitor tags whose findings are violations for this run
    pub monitors: Vec<&'static str>,
    /// re-probe every state after dropping and re-creating storage + server objects
    pub reopen_probe: bool,
    /// run the two-run non-interference comparison in every state
    pub solo_runs: bool,
    pub max_states: usize,
    pub wall_cap_s: f64,
    pub threads: usize,
    pub seed: u64,
    /// C13: histories up to this length are re-run with a reopen at every subset of positions
    pub reopen_subsets_up_to: usize,
}

#[derive(Clone, Debug)]
pub struct Step {
    pub aop: AOp,
    pub sop: SymOp,
    pub new_sid: Sid,
    /// expected response (None for environment steps)
    pub expect: Option<MResp>,
    /// AddSnapshot: was the snapshot replaced
    pub replaced: Option<bool>,
}

#[derive(Clone, Debug)]
pub struct Node {
    pub steps: Vec<Step>,
    pub model: Model,
}

impl Node {
    pub fn history(&self) -> Vec<String> {
        self.steps.iter().map(|s| s.aop.show()).collect()
    }
}

#[derive(Clone, Debug)]
pub struct Finding {
    pub monitor: &'static str,
    pub sut: String,
    pub class: String,
    pub msg: String,
    pub history: Vec<String>,
    /// the operation applied from the state reached by `history` (None: state-level probe)
    pub op: Option<String>,
}

#[derive(Default, Clone, Debug)]
pub struct Stats {
    pub states: u64,
    pub transitions: u64,
    pub impl_transitions: u64,
    pub probes: u64,
    pub merges: u64,
    pub replays: u64,
    pub solo_runs: u64,
    pub collateral: u64,
    pub outcomes: BTreeMap<String, u64>,
    pub max_depth_done: usize,
    pub http_responses: u64,
    pub reopen_subsets: u64,
    pub monitor_evals: BTreeMap<&'static str, u64>,
}

impl Stats {
    fn add(&mut self, o: &Stats) {
        self.states += o.states;
        self.transitions += o.transitions;
        self.impl_transitions += o.impl_transitions;
        self.probes += o.probes;
        self.merges += o.merges;
        self.replays += o.replays;
        self.solo_runs += o.solo_runs;
        self.collateral += o.collateral;
        self.http_responses += o.http_responses;
        self.reopen_subsets += o.reopen_subsets;
        for (k, v) in &o.outcomes {
            *self.outcomes.entry(k.clone()).or_insert(0) += v;
        }
        for (k, v) in &o.monitor_evals {
            *self.monitor_evals.entry(k).or_insert(0) += v;
        }
    }
    fn outcome(&mut self, k: &str) {
        *self.outcomes.entry(k.to_string()).or_insert(0) += 1;
    }
    fn eval(&mut self, m: &'static str) {
        *self.monitor_evals.entry(m).or_insert(0) += 1;
    }
}

pub struct SeqResult {
    pub stats: Stats,
    pub findings: Vec<Finding>,
    pub exhaustive: bool,
    pub cap_note: Option<String>,
    pub samples: Vec<Value>,
    pub level_sizes: Vec<usize>,
}

// ---------------------------------------------------------------------------------------------

/// What one implementation itself acknowledged, per client (own-oracle for C01 / C07).
#[derive(Clone, Debug, Default)]
struct Accepted {
    per_client: BTreeMap<Cid, Vec<(Sid, Sid, Vec<u8>)>>,
}

/// A pre-existing database the exploration starts from (E-CORPUS): the first `n` steps of every
/// node's history are already contained in `files`, written by another build of the server.
#[derive(Clone)]
pub struct Base {
    pub n: usize,
    pub files: DirImage,
    pub tab: SymTab,
    pub model: Model,
}

pub struct Worker {
    suts: Vec<SymSut>,
    pub params: SeqParams,
    pub base: Option<Base>,
}

pub(crate) fn create_client_via_storage(s: &mut SymSut, c: Cid) -> Result<(), String> {
    let cu = s.cuuid(c);
    let st = s.sut.storage().clone();
    let r = std::panic::catch_unwind(std::panic::AssertUnwindSafe(|| -> anyhow::Result<()> {
        let mut txn = st.txn(cu)?;
        if txn.get_client()?.is_none() {
            txn.new_client(NIL_VERSION_ID)?;
            txn.commit()?;
        }
        Ok(())
    }));
    match r {
        Ok(Ok(())) => Ok(()),
        Ok(Err(e)) => Err(format!("{e:#}")),
        Err(_) => Err("panic while creating client".into()),
    }
}

/// Execute one step on one implementation. For library entries an unknown client is first
/// created through the storage API, as the HTTP handler would (the model uses HTTP semantics).
fn exec(s: &mut SymSut, pre: &Model, sop: &SymOp, new_sid: Sid) -> SResp {
    if let SymOp::AddVersion { c, .. } = sop {
        if !s.sut.spec.is_http() && pre.client(*c).is_none() {
            if let Err(e) = create_client_via_storage(s, *c) {
                return SResp::Fail(format!("client creation failed: {e}"));
            }
        }
    }
    s.apply(sop, new_sid)
}

fn cache_control_ok(raw: &RawHttp) -> bool {
    raw.headers.iter().any(|(k, v)| {
        k == "cache-control"
            && String::from_utf8_lossy(v)
                .to_ascii_lowercase()
                .split(',')
                .any(|t| t.trim() == "no-store")
    })
}

/// The exact HTTP encoding of a protocol outcome (C14's table). Returns a description of the
/// first discrepancy.
pub fn check_encoding(sop: &SymOp, expected: &SResp, raw: &RawHttp, tab: &SymTab) -> Result<(), String> {
    use crate::http::{HS_CT, SNAP_CT};
    let want_absent = |names: &[&str]| -> Result<(), String> {
        for n in names {
            if raw.header_count(n) != 0 {
                return Err(format!("header {n} must be absent: {}", raw.brief()));
            }
        }
        Ok(())
    };
    let want_hdr = |name: &str, val: String| -> Result<(), String> {
        if raw.header_count(name) != 1 || raw.header_str(name).unwrap() != val {
            return Err(format!("expected {name}: {val} in {}", raw.brief()));
        }
        Ok(())
    };
    let mut t = tab.clone();
    let is_av = matches!(sop, SymOp::AddVersion { .. });
    let is_gc = matches!(sop, SymOp::GetChild { .. });
    let is_as = matches!(sop, SymOp::AddSnapshot { .. });
    match expected {
        SResp::AvOk { id, urgency, .. } => {
            if raw.status != 200 {
                return Err(format!("accepted version must be 200: {}", raw.brief()));
            }
            want_hdr("X-Version-Id", t.uuid(*id).to_string())?;
            match urgency {
                Urg::None => want_absent(&["X-Snapshot-Request"])?,
                Urg::Low => want_hdr("X-Snapshot-Request", "urgency=low".into())?,
                Urg::High => want_hdr("X-Snapshot-Request", "urgency=high".into())?,
            }
            want_absent(&["X-Parent-Version-Id"])?;
            if !raw.body.is_empty() {
                return Err(format!("accepted version must have no body: {}", raw.brief()));
            }
        }
        SResp::AvConflict { expected } => {
            if raw.status != 409 {
                return Err(format!("conflict must be 409: {}", raw.brief()));
            }
            want_hdr("X-Parent-Version-Id", t.uuid(*expected).to_string())?;
            want_absent(&["X-Version-Id", "X-Snapshot-Request"])?;
        }
        SResp::GcFound { id, parent, data } => {
            if raw.status != 200 {
                return Err(format!("found child must be 200: {}", raw.brief()));
            }
            want_hdr("X-Version-Id", t.uuid(*id).to_string())?;
            want_hdr("X-Parent-Version-Id", t.uuid(*parent).to_string())?;
            want_hdr("Content-Type", HS_CT.into())?;
            want_absent(&["X-Snapshot-Request"])?;
            if &raw.body != data {
                return Err(format!(
                    "body {} differs from stored payload {}",
                    show_bytes(&raw.body),
                    show_bytes(data)
                ));
            }
        }
        SResp::GcNotFound => {
            if raw.status != 404 {
                return Err(format!("not-found must be 404: {}", raw.brief()));
            }
            want_absent(&["X-Version-Id", "X-Parent-Version-Id", "X-Snapshot-Request"])?;
        }
        SResp::GcGone => {
            if raw.status != 410 {
                return Err(format!("gone must be 410: {}", raw.brief()));
            }
            want_absent(&["X-Version-Id", "X-Parent-Version-Id", "X-Snapshot-Request"])?;
        }
        SResp::NoSuchClient => {
            if is_av {
                return Err("AddVersion must create unknown clients over HTTP".into());
            }
            if raw.status != 404 {
                return Err(format!("unknown client must be 404: {}", raw.brief()));
            }
            want_absent(&["X-Version-Id", "X-Parent-Version-Id", "X-Snapshot-Request"])?;
        }
        SResp::SnapOk => {
            if raw.status != 200 {
                return Err(format!("AddSnapshot must be 200: {}", raw.brief()));
            }
            want_absent(&["X-Version-Id", "X-Parent-Version-Id", "X-Snapshot-Request"])?;
            if !raw.body.is_empty() {
                return Err(format!("AddSnapshot answer must have no body: {}", raw.brief()));
            }
        }
        SResp::GsFound { id, data } => {
            if raw.status != 200 {
                return Err(format!("snapshot must be 200: {}", raw.brief()));
            }
            want_hdr("X-Version-Id", t.uuid(*id).to_string())?;
            want_hdr("Content-Type", SNAP_CT.into())?;
            want_absent(&["X-Parent-Version-Id", "X-Snapshot-Request"])?;
            if &raw.body != data {
                return Err("snapshot body differs from stored bytes".into());
            }
        }
        SResp::GsNone => {
            if raw.status != 404 {
                return Err(format!("no snapshot must be 404: {}", raw.brief()));
            }
            want_absent(&["X-Version-Id", "X-Parent-Version-Id", "X-Snapshot-Request"])?;
        }
        SResp::Done | SResp::Fail(_) | SResp::Panic(_) | SResp::Undecodable(_) => {}
    }
    let _ = (is_gc, is_as);
    Ok(())
}

/// A transition as planned by the model before any implementation ran.
pub struct Planned {
    pub sop: SymOp,
    pub new_sid: Sid,
    pub mresp: Option<MResp>,
    /// AddSnapshot only: the model's decision (inner None = no such client)
    pub decision: Option<Option<SnapDecision>>,
    /// model after the step, AddSnapshot not yet applied
    pub model2: Model,
}

pub fn plan(model: &Model, aop: &AOp, pos: usize) -> Option<Planned> {
    let mut model2 = model.clone();
    let sop = to_symop(&mut model2, aop, pos)?;
    let new_sid = model2.next_sid;
    let expect = model_step(&mut model2, &sop);
    let mut decision = None;
    let mresp = match expect {
        Expect::Resp(m) => Some(m),
        Expect::Snapshot(d) => {
            decision = Some(d);
            Some(if d.is_some() { MResp::SnapOk } else { MResp::NoSuchClient })
        }
        Expect::Done => None,
    };
    Some(Planned { sop, new_sid, mresp, decision, model2 })
}

/// The model after the planned step; `observed` resolves an `Either` snapshot decision.
/// Returns the model and, for AddSnapshot, whether the snapshot was replaced.
pub fn finalize(pl: &Planned, observed: Option<bool>) -> (Model, Option<bool>) {
    let mut m = pl.model2.clone();
    if let (Some(d), SymOp::AddSnapshot { c, v, data }) = (&pl.decision, &pl.sop) {
        let rep = match d {
            Some(SnapDecision::Replace) => true,
            Some(SnapDecision::Keep) | None => false,
            Some(SnapDecision::Either) => observed.unwrap_or(false),
        };
        if d.is_some() {
            m.add_snapshot_apply(*c, *v, data, rep);
        }
        return (m, Some(rep));
    }
    (m, None)
}

/// Rebuild a node from its alphabet-level history and the recorded `Either` resolutions.
pub fn rebuild_node(cfg: Config, hist: &[AOp], replaced: &[Option<bool>]) -> Option<Node> {
    let mut node = Node { steps: vec![], model: Model::new(cfg) };
    for (k, aop) in hist.iter().enumerate() {
        let pl = plan(&node.model, aop, k)?;
        let (m, rep) = finalize(&pl, replaced.get(k).copied().flatten());
        node.steps.push(Step { aop: aop.clone(), sop: pl.sop.clone(), new_sid: pl.new_sid, expect: pl.mresp.clone(), replaced: rep });
        node.model = m;
    }
    Some(node)
}

/// Which properties a difference between stored state and model state speaks to.
fn state_tags(model: &Model, d: &SymDump, anomalies: &[String]) -> Vec<&'static str> {
    let mut t: Vec<&'static str> = vec![];
    for a in anomalies {
        if a.contains("absent client") || a.contains("unknown client") || a.contains("owned by unknown") {
            t.extend(["C09", "C08"]);
        } else {
            t.extend(["C01", "C13", "C07"]);
        }
    }
    let m = model.dump();
    if m.versions != d.versions {
        t.extend(["C01", "C02", "C07", "C13"]);
    }
    for (c, mc) in &m.clients {
        match d.clients.get(c) {
            None => t.extend(["C02", "C13"]),
            Some(dc) => {
                if dc.latest != mc.latest {
                    t.extend(["C01", "C02", "C13"]);
                }
                if dc.snapshot != mc.snapshot {
                    t.extend(["C10", "C11", "C12", "C13"]);
                }
            }
        }
    }
    for (c, dc) in &d.clients {
        if !m.clients.contains_key(c) {
            t.extend(["C02", "C18", "C13"]);
            // a client that never had a request accepted, yet owns a latest version or a
            // snapshot: somebody else's
            if dc.latest != NIL || dc.snapshot.is_some() {
                t.push("C09");
            }
        }
    }
    t.sort();
    t.dedup();
    t
}

struct SutState {
    diverged: bool,
    acc: Accepted,
    tab: SymTab,
    files: Option<DirImage>,
    dump: Dump,
    sdump: SymDump,
    responses: Vec<SResp>,
}

impl Worker {
    pub fn new(params: &SeqParams) -> Worker {
        crate::sut::set_id_family(params.alphabet.id_family);
        let suts = params
            .specs
            .iter()
            .map(|sp| {
                let mut s = SymSut::new(*sp, params.cfg, params.seed, params.alphabet.n_clients);
                if sp.is_http() {
                    s.sut.chunks = 2;
                }
                s
            })
            .collect();
        Worker {
            suts,
            params: params.clone(),
            base: None,
        }
    }

    /// Current database files / symbol table of implementation `i` (E-CORPUS generator).
    pub fn files_of(&self, i: usize) -> DirImage {
        self.suts[i].sut.save_files()
    }
    pub fn tab_of(&self, i: usize) -> SymTab {
        self.suts[i].tab.clone()
    }
    pub fn storage_of(&self, i: usize) -> std::sync::Arc<dyn taskchampion_sync_server_core::Storage> {
        self.suts[i].sut.storage().clone()
    }
    /// Move every stored snapshot `days` further into the past (generator self-test only).
    pub fn backdate(&mut self, i: usize, days: i64, n_clients: u8) {
        for c in 0..n_clients {
            let cu = self.suts[i].cuuid(c);
            let st = self.suts[i].sut.storage().clone();
            let _ = (|| -> anyhow::Result<()> {
                let mut txn = st.txn(cu)?;
                if let Some(cl) = txn.get_client()? {
                    if let Some(mut s) = cl.snapshot {
                        let data = txn.get_snapshot_data(s.version_id)?.unwrap_or_default();
                        s.timestamp -= chrono::Duration::days(days);
                        txn.set_snapshot(s, data)?;
                        txn.commit()?;
                    }
                }
                Ok(())
            })();
        }
    }

    fn mon(&self, m: &str) -> bool {
        self.params.monitors.iter().any(|x| *x == m)
    }

    /// Bring implementation `i` to the state of `node` by replaying its history from scratch.
    /// Returns the per-step responses and what the implementation itself acknowledged.
    fn replay(
        &mut self,
        i: usize,
        node: &Node,
        findings: &mut Vec<Finding>,
        stats: &mut Stats,
        check: bool,
    ) -> (bool, Accepted, Vec<SResp>) {
        let s = &mut self.suts[i];
        let mut acc = Accepted::default();
        let mut resps = vec![];
        let mut model = Model::new(self.params.cfg);
        let mut diverged = false;
        let mut start = 0;
        if let Some(b) = &self.base {
            // start from the given database instead of an empty one
            s.sut.restore_files(&b.files);
            if let Err(e) = s.sut.reopen() {
                findings.push(Finding { monitor: "C19", sut: s.name().to_string(), class: "does-not-open".into(), msg: format!("the database does not open: {e}"), history: node.history(), op: None });
                return (true, acc, resps);
            }
            s.tab = b.tab.clone();
            model = b.model.clone();
            for (c, cl) in &model.clients {
                for v in &cl.chain {
                    acc.per_client.entry(*c).or_default().push((v.id, v.parent, v.data.clone()));
                }
            }
            start = b.n;
            for _ in 0..start {
                resps.push(SResp::Done);
            }
        } else {
            s.reset();
        }
        for (k, st) in node.steps.iter().enumerate().skip(start) {
            let r = exec(s, &model, &st.sop, st.new_sid);
            // advance the model exactly as recorded
            match model_step(&mut model, &st.sop) {
                Expect::Snapshot(_) => {
                    if let (SymOp::AddSnapshot { c, v, data }, Some(rep)) = (&st.sop, st.replaced) {
                        model.add_snapshot_apply(*c, *v, data, rep);
                    }
                }
                _ => {}
            }
            if let (SResp::AvOk { id, .. }, SymOp::AddVersion { c, parent, data }) = (&r, &st.sop) {
                acc.per_client
                    .entry(*c)
                    .or_default()
                    .push((*id, *parent, data.clone()));
            }
            if check {
                let ok = match &st.expect {
                    Some(m) => resp_matches(m, &r, s.sut.spec.is_http()).is_ok(),
                    None => !r.is_failure(),
                };
                if !ok && !diverged {
                    diverged = true;
                    // a replay that differs from the recorded transition: the implementation is
                    // not a function of its stored state and request
                    findings.push(Finding {
                        monitor: "REPLAY",
                        sut: s.name().to_string(),
                        class: "replay-diverged".into(),
                        msg: format!(
                            "replaying step {k} ({}) gave {:?}, recorded expectation {:?}",
                            st.aop.show(),
                            r,
                            st.expect
                        ),
                        history: node.history(),
                        op: None,
                    });
                }
            }
            resps.push(r);
        }
        stats.replays += 1;
        (diverged, acc, resps)
    }

    /// Put implementation `i` back into the state of `node`. SQLite: restore the files. In
    /// memory: replay from scratch, which invents new random ids, so the recorded symbol table and
    /// concrete dump of the state are refreshed (the symbolic dump is unaffected).
    fn restore(&mut self, i: usize, node: &Node, st: &mut SutState) {
        if self.suts[i].sut.spec.is_sql() {
            let files = st.files.as_ref().unwrap();
            self.suts[i].sut.restore_files(files);
            self.suts[i].tab = st.tab.clone();
        } else {
            let mut f = vec![];
            let mut stats = Stats::default();
            let _ = self.replay(i, node, &mut f, &mut stats, false);
            st.tab = self.suts[i].tab.clone();
            st.dump = self.suts[i].dump_fast();
        }
    }

    pub fn process(&mut self, node: &Node) -> (Vec<Finding>, Vec<(String, Node)>, Stats, bool) {
        let mut findings: Vec<Finding> = vec![];
        let mut stats = Stats::default();
        stats.states = 1;
        let nsut = self.suts.len();
        let hist = node.history();
        let alphabet = self.params.alphabet.clone();
        let mut prune = false;

        macro_rules! find {
            ($mon:expr, $i:expr, $class:expr, $op:expr, $($arg:tt)*) => {{
                findings.push(Finding {
                    monitor: $mon,
                    sut: self.suts[$i].name().to_string(),
                    class: $class.to_string(),
                    msg: format!($($arg)*),
                    history: hist.clone(),
                    op: $op,
                });
            }};
        }

        // ---- 1. reach the state on every implementation
        let mut sts: Vec<SutState> = vec![];
        for i in 0..nsut {
            let (diverged, acc, responses) = self.replay(i, node, &mut findings, &mut stats, true);
            let files = if self.suts[i].sut.spec.is_sql() {
                Some(self.suts[i].sut.save_files())
            } else {
                None
            };
            let dump = self.suts[i].dump_concrete();
            let (sdump, anomalies) = self.suts[i].symbolize_dump(&dump);
            if !diverged {
                if let Err(e) = dump_matches(&node.model, &sdump, &anomalies) {
                    // the complete view (API + raw tables) of this state differs from the model
                    let tags = state_tags(&node.model, &sdump, &anomalies);
                    let mut hit = false;
                    for m in tags {
                        if self.mon(m) {
                            hit = true;
                            find!(m, i, "stored-state", None, "stored state differs from the model: {e}");
                        }
                    }
                    if !hit {
                        stats.collateral += 1;
                    }
                }
            }
            sts.push(SutState {
                diverged,
                acc,
                tab: self.suts[i].tab.clone(),
                files,
                dump,
                sdump,
                responses,
            });
        }
        if sts.iter().any(|s| s.diverged) {
            prune = true;
        }

        // ---- 2. state-level probes
        // (probe id classes are resolved once against the model so that all implementations are
        // asked about the same symbolic ids)
        let mut probe_ids: BTreeMap<Cid, Vec<(IdClass, Sid)>> = BTreeMap::new();
        for c in 0..alphabet.n_clients {
            probe_ids.insert(c, alphabet.distinct_ids(&node.model, c));
        }
        // answers[i][(c, sid)] = GetChild answer
        let mut gc_answers: Vec<BTreeMap<(Cid, Sid), SResp>> = vec![BTreeMap::new(); nsut];
        let mut gs_answers: Vec<BTreeMap<Cid, SResp>> = vec![BTreeMap::new(); nsut];
        let mut raws: Vec<Vec<(SymOp, SResp, RawHttp)>> = vec![vec![]; nsut];

        for i in 0..nsut {
            if sts[i].diverged {
                continue;
            }
            let http = self.suts[i].sut.spec.is_http();
            let rounds = if self.params.reopen_probe && self.suts[i].sut.spec.is_sql() { 2 } else { 1 };
            for round in 0..rounds {
                if round == 1 {
                    if let Err(e) = self.suts[i].sut.reopen() {
                        find!("C13", i, "reopen-failed", None, "reopening the database failed: {e}");
                        break;
                    }
                }
                let tag_reopen = if round == 1 { " (after reopen)" } else { "" };
                // -- GetChild for every id class
                for c in 0..alphabet.n_clients {
                    for (cls, sid) in probe_ids[&c].clone() {
                        let op = SymOp::GetChild { c, parent: sid };
                        let r = self.suts[i].apply(&op, UNKNOWN_SID);
                        stats.probes += 1;
                        stats.outcome(&format!("GetChild:{}", r.kind()));
                        if let Some(raw) = self.suts[i].sut.last_raw.clone() {
                            raws[i].push((op.clone(), r.clone(), raw));
                        }
                        let opd = Some(format!("GetChild({},{})", (b'A' + c) as char, cls.show()));
                        // C08, part one: a stored child must be returned; unknown client => not found
                        if self.mon("C08") {
                            stats.eval("C08");
                            let child = sts[i]
                                .sdump
                                .versions
                                .iter()
                                .find(|(vc, _, p, _)| *vc == c && *p == sid);
                            let exists = sts[i].sdump.clients.contains_key(&c);
                            match (&r, child) {
                                (SResp::GcFound { id, parent, data }, Some((_, vid, vp, vd)))
                                    if id == vid && parent == vp && data == vd => {}
                                (_, Some(v)) => find!(
                                    "C08", i, "child-not-returned", opd.clone(),
                                    "a child #{} of #{} is stored but GetChild answered {:?}{tag_reopen}", v.1, sid, r
                                ),
                                (SResp::GcNotFound, None) if exists || http => {}
                                (SResp::NoSuchClient, None) if !exists && !http => {}
                                (SResp::GcGone, None) if exists => {}
                                (_, None) => find!(
                                    "C08", i, "bad-answer", opd.clone(),
                                    "no child of #{sid} stored, client exists={exists}, GetChild answered {:?}{tag_reopen}", r
                                ),
                            }
                        }
                        // model agreement (attributed to C08 as well: same rule, stated via the model)
                        let m = node.model.get_child(c, sid);
                        if let Err(e) = resp_matches(&m, &r, http) {
                            if self.mon("C08") {
                                find!("C08", i, "model-mismatch", opd.clone(), "{e}{tag_reopen}");
                            }
                        }
                        if round == 0 {
                            gc_answers[i].insert((c, sid), r);
                        } else if gc_answers[i].get(&(c, sid)) != Some(&r) {
                            find!(
                                "C13", i, "reopen-changes-answer", opd.clone(),
                                "GetChild answered {:?} before and {:?} after reopening the database",
                                gc_answers[i].get(&(c, sid)), r
                            );
                        }
                    }
                }
                // -- C07 / C01: everything this implementation acknowledged is still there
                let acc = sts[i].acc.clone();
                let sd = sts[i].sdump.clone();
                for (m, class, msg) in self.own_oracle(i, &acc, &sd, tag_reopen, &mut stats) {
                    find!(m, i, class, None, "{msg}");
                }
                // -- GetSnapshot + walk from it (C11)
                for c in 0..alphabet.n_clients {
                    let op = SymOp::GetSnapshot { c };
                    let r = self.suts[i].apply(&op, UNKNOWN_SID);
                    stats.probes += 1;
                    stats.outcome(&format!("GetSnapshot:{}", r.kind()));
                    if let Some(raw) = self.suts[i].sut.last_raw.clone() {
                        raws[i].push((op.clone(), r.clone(), raw));
                    }
                    let opd = Some(format!("GetSnapshot({})", (b'A' + c) as char));
                    if self.mon("C11") {
                        stats.eval("C11");
                        let m = node.model.get_snapshot(c);
                        if let Err(e) = resp_matches(&m, &r, http) {
                            find!("C11", i, "wrong-snapshot", opd.clone(), "{e}{tag_reopen}");
                        }
                        if let SResp::GsFound { id, .. } = &r {
                            // usable base: children from it reach latest, never gone
                            let latest = sts[i].sdump.clients.get(&c).map(|x| x.latest).unwrap_or(NIL);
                            let mut cur = *id;
                            let mut steps = 0;
                            loop {
                                let rr = self.suts[i].apply(&SymOp::GetChild { c, parent: cur }, UNKNOWN_SID);
                                stats.probes += 1;
                                match rr {
                                    SResp::GcFound { id, .. } => {
                                        cur = id;
                                        steps += 1;
                                        if steps > 1000 {
                                            find!("C11", i, "snapshot-walk-cycle", opd.clone(), "walk from the snapshot version does not terminate");
                                            break;
                                        }
                                    }
                                    SResp::GcNotFound => {
                                        if cur != latest {
                                            find!("C11", i, "snapshot-walk-short", opd.clone(),
                                                "walk from snapshot version #{id} ended not-found at #{cur}, latest is #{latest}{tag_reopen}");
                                        }
                                        break;
                                    }
                                    other => {
                                        find!("C11", i, "snapshot-not-a-base", opd.clone(),
                                            "walk from snapshot version #{id} answered {:?} at #{cur}{tag_reopen}", other);
                                        break;
                                    }
                                }
                            }
                        }
                    }
                    if round == 0 {
                        gs_answers[i].insert(c, r);
                    } else if gs_answers[i].get(&c) != Some(&r) {
                        find!("C13", i, "reopen-changes-answer", opd.clone(),
                            "GetSnapshot answered {:?} before and {:?} after reopening the database", gs_answers[i].get(&c), r);
                    }
                }
                // -- library AddVersion for a client the server has never seen: NoSuchClient, no change
                if !http && self.mon("C08") {
                    for c in 0..alphabet.n_clients {
                        if !sts[i].sdump.clients.contains_key(&c) {
                            let op = SymOp::AddVersion { c, parent: NIL, data: b"x".to_vec() };
                            let r = self.suts[i].apply(&op, UNKNOWN_SID);
                            stats.probes += 1;
                            if r != SResp::NoSuchClient {
                                find!("C08", i, "unknown-client-library", None, "library AddVersion for an unknown client answered {:?}", r);
                            }
                        }
                    }
                }
            }
            // -- C02: an AddVersion whose body transfer breaks off after a first piece was not
            //    submitted: it must not be accepted with what happened to arrive, and it changes
            //    nothing (HTTP entry; parent = latest, the case that would otherwise be accepted)
            if http && self.mon("C02") {
                for c in 0..alphabet.n_clients {
                    let latest = node.model.client(c).map(|cl| cl.latest()).unwrap_or(NIL);
                    let cu = self.suts[i].cuuid(c);
                    let pu = self.suts[i].tab.uuid(latest);
                    let req = crate::sut::Req::AddVersion { c: cu, parent: pu, data: b"broken-off-upload".to_vec() };
                    let mut hr = crate::sut::http_req_for(&req, 1);
                    hr.body = crate::http::Body::ThenError(vec![b"broken-".to_vec(), b"off".to_vec()]);
                    stats.probes += 1;
                    stats.eval("C02");
                    let r = self.suts[i].sut.send_http(&hr);
                    let accepted = matches!(&r, Ok(raw) if (200..300).contains(&raw.status));
                    let after = self.suts[i].dump_fast();
                    let changed = after.clients != sts[i].dump.clients || after.versions != sts[i].dump.versions;
                    if accepted || changed {
                        find!("C02", i, "broken-off-upload", Some(format!("AddVersion({},latest) with the body transfer failing after 10 bytes", (b'A' + c) as char)),
                            "an upload whose transfer failed was {} (answer {}){}",
                            if accepted { "accepted" } else { "not acknowledged" },
                            r.as_ref().map(|x| x.status.to_string()).unwrap_or_else(|e| format!("error {e}")),
                            if changed { "; the stored state changed" } else { "" });
                    }
                    if changed {
                        self.restore(i, node, &mut sts[i]);
                    }
                }
            }
            // -- C12(b): the stored counter equals the number of versions accepted since the
            //    snapshot was stored (model's count)
            if self.mon("C12") {
                for (c, cl) in &node.model.clients {
                    stats.eval("C12");
                    let want = cl.snapshot.as_ref().map(|s| s.since);
                    let got = sts[i].sdump.clients.get(c).and_then(|x| x.snapshot.as_ref()).map(|s| s.since);
                    if want != got {
                        find!("C12", i, "counter", None, "versions-since-snapshot of client {}: stored {:?}, accepted since the snapshot {:?}", (b'A' + *c) as char, got, want);
                    }
                }
            }
            // -- C18: the probes changed nothing
            let after = self.suts[i].dump_concrete();
            if self.mon("C18") {
                stats.eval("C18");
                if after.clients != sts[i].dump.clients || after.versions != sts[i].dump.versions || after.raw != sts[i].dump.raw {
                    find!("C18", i, "reads-changed-state", None,
                        "stored state differs after read-only requests: before {:?} / {} versions, after {:?} / {} versions",
                        sts[i].dump.clients, sts[i].dump.versions.len(), after.clients, after.versions.len());
                }
            }
            if after.clients != sts[i].dump.clients || after.versions != sts[i].dump.versions {
                // whatever happened, continue from the recorded state
                self.restore(i, node, &mut sts[i]);
            } else {
                // forget fresh-id bindings made by the probes
                self.suts[i].tab = sts[i].tab.clone();
            }
        }

        // ---- C13 / C16: implementations agree in this state (dumps and every probe answer)
        for (b, i, tag) in self.cross_pairs() {
            if sts[i].diverged || sts[b].diverged {
                continue;
            }
            stats.eval(tag);
            if sts[i].sdump != sts[b].sdump {
                find!(tag, i, "state-differs", None, "stored state differs from {}: {:?} vs {:?}", self.suts[b].name(), sts[i].sdump, sts[b].sdump);
            }
            let norm = |r: &SResp| -> SResp {
                // HTTP cannot tell an unknown client from not-found
                match r {
                    SResp::NoSuchClient => SResp::GcNotFound,
                    SResp::GsNone => SResp::GcNotFound,
                    x => x.clone(),
                }
            };
            for (k, r) in &gc_answers[b] {
                if let Some(r2) = gc_answers[i].get(k) {
                    if norm(r) != norm(r2) {
                        find!(tag, i, "answer-differs", Some(format!("GetChild({},#{})", (b'A' + k.0) as char, k.1)),
                            "{} answered {:?}, {} answered {:?}", self.suts[b].name(), r, self.suts[i].name(), r2);
                    }
                }
            }
            for (k, r) in &gs_answers[b] {
                if let Some(r2) = gs_answers[i].get(k) {
                    if norm(r) != norm(r2) {
                        find!(tag, i, "answer-differs", Some(format!("GetSnapshot({})", (b'A' + *k) as char)),
                            "{} answered {:?}, {} answered {:?}", self.suts[b].name(), r, self.suts[i].name(), r2);
                    }
                }
            }
        }
        // ---- C14 / C20 on the probes' raw HTTP responses
        for i in 0..nsut {
            let twin = self.twin_of(i);
            for (op, r, raw) in &raws[i] {
                stats.http_responses += 1;
                if self.mon("C20") {
                    stats.eval("C20");
                    if !cache_control_ok(raw) {
                        find!("C20", i, "no-cache-control", Some(op.describe()), "response without Cache-Control: no-store: {}", raw.brief());
                    }
                }
                if self.mon("C14") {
                    stats.eval("C14");
                    // expected: the library twin's answer on the same state (falls back to own decode)
                    let expected = match (twin, op) {
                        (Some(t), SymOp::GetChild { c, parent }) => gc_answers[t].get(&(*c, *parent)).cloned().unwrap_or(r.clone()),
                        (Some(t), SymOp::GetSnapshot { c }) => gs_answers[t].get(c).cloned().unwrap_or(r.clone()),
                        _ => r.clone(),
                    };
                    if let Err(e) = check_encoding(op, &expected, raw, &self.suts[i].tab) {
                        find!("C14", i, "encoding", Some(op.describe()), "library outcome {:?} is not what HTTP carried: {e}", expected);
                    }
                }
            }
        }

        // ---- C09: two-run non-interference: each client's projection, alone, answers the same
        if self.params.solo_runs && self.mon("C09") && !node.steps.is_empty() {
            let clients: BTreeSet<Cid> = node.steps.iter().map(|s| s.aop.client()).collect();
            if clients.len() >= 2 {
                for i in 0..nsut {
                    if sts[i].diverged {
                        continue;
                    }
                    for &c in &clients {
                        stats.eval("C09");
                        stats.solo_runs += 1;
                        let idx: Vec<usize> = (0..node.steps.len()).filter(|k| node.steps[*k].aop.client() == c).collect();
                        // solo run on a fresh implementation of the same kind
                        self.suts[i].reset();
                        let mut m = Model::new(self.params.cfg);
                        let mut solo = vec![];
                        for &k in &idx {
                            let st = &node.steps[k];
                            let r = exec(&mut self.suts[i], &m, &st.sop, st.new_sid);
                            // only client existence matters to `exec`; track it
                            if let SymOp::AddVersion { c, .. } = &st.sop {
                                m.clients.entry(*c).or_default();
                            }
                            solo.push(r);
                        }
                        let mut differs = false;
                        for (j, &k) in idx.iter().enumerate() {
                            if solo[j] != sts[i].responses[k] {
                                find!("C09", i, "interference", Some(node.steps[k].aop.show()),
                                    "step {k} ({}) answered {:?} when other clients' requests were interleaved, but {:?} when client {} ran alone",
                                    node.steps[k].aop.show(), sts[i].responses[k], solo[j], (b'A' + c) as char);
                                differs = true;
                                break;
                            }
                        }
                        // ... and so must its reads: every GetChildVersion / GetSnapshot the client can
                        // ask in this state (ids of other clients included) answers the same alone
                        if !differs {
                            for (cls, sid) in probe_ids[&c].clone() {
                                let r = self.suts[i].apply(&SymOp::GetChild { c, parent: sid }, UNKNOWN_SID);
                                stats.probes += 1;
                                if let Some(r0) = gc_answers[i].get(&(c, sid)) {
                                    if *r0 != r {
                                        find!("C09", i, "read-interference", Some(format!("GetChild({},{})", (b'A' + c) as char, cls.show())),
                                            "GetChildVersion answered {:?} with other clients' requests interleaved, but {:?} when client {} ran alone", r0, r, (b'A' + c) as char);
                                        break;
                                    }
                                }
                            }
                            let r = self.suts[i].apply(&SymOp::GetSnapshot { c }, UNKNOWN_SID);
                            stats.probes += 1;
                            if let Some(r0) = gs_answers[i].get(&c) {
                                if *r0 != r {
                                    find!("C09", i, "read-interference", Some(format!("GetSnapshot({})", (b'A' + c) as char)),
                                        "GetSnapshot answered {:?} with other clients' requests interleaved, but {:?} when client {} ran alone", r0, r, (b'A' + c) as char);
                                }
                            }
                        }
                    }
                    // back to the node state
                    self.restore(i, node, &mut sts[i]);
                }
            }
        }

        // ---- C13: closing and reopening the database between any two requests changes no
        //      response: the history again with a reopen at every subset of its positions
        //      (short histories; longer ones are covered by never / before-every-request / here)
        if self.mon("C13") && !node.steps.is_empty() && node.steps.len() <= self.params.reopen_subsets_up_to {
            if let Some(i) = (0..nsut).find(|&i| self.suts[i].sut.spec.is_sql() && !self.suts[i].sut.spec.is_http() && !self.suts[i].sut.spec.reopen_each && !sts[i].diverged) {
                let d = node.steps.len();
                for mask in 1u32..(1 << d) {
                    stats.eval("C13");
                    stats.reopen_subsets += 1;
                    self.suts[i].reset();
                    let mut m = Model::new(self.params.cfg);
                    for (k, st) in node.steps.iter().enumerate() {
                        if mask & (1 << k) != 0 {
                            if let Err(e) = self.suts[i].sut.reopen() {
                                find!("C13", i, "reopen-failed", None, "reopening the database before step {k} failed: {e}");
                                break;
                            }
                        }
                        let r = exec(&mut self.suts[i], &m, &st.sop, st.new_sid);
                        if let Expect::Snapshot(_) = model_step(&mut m, &st.sop) {
                            if let (SymOp::AddSnapshot { c, v, data }, Some(rep)) = (&st.sop, st.replaced) {
                                m.add_snapshot_apply(*c, *v, data, rep);
                            }
                        }
                        if r != sts[i].responses[k] {
                            find!("C13", i, "reopen-subset-changes-answer", Some(st.aop.show()),
                                "with the database reopened before steps {:?}, step {k} ({}) answered {:?}; without any reopen it answered {:?}",
                                (0..d).filter(|x| mask & (1 << x) != 0).collect::<Vec<_>>(), st.aop.show(), r, sts[i].responses[k]);
                            break;
                        }
                    }
                }
                self.restore(i, node, &mut sts[i]);
            }
        }
        // ---- 3. transitions
        let mut children: Vec<(String, Node)> = vec![];
        if prune || node.steps.len() >= self.params.max_depth {
            return (findings, children, stats, prune);
        }
        let pos = node.steps.len();
        let mut av_outcomes: Vec<BTreeMap<(Cid, Sid), bool>> = vec![BTreeMap::new(); nsut];
        for aop in alphabet.transitions(&node.model) {
            let Some(pl) = plan(&node.model, &aop, pos) else { continue };
            let sop = pl.sop.clone();
            let new_sid = pl.new_sid;
            let _ = &pl.model2;
            let decision = pl.decision;
            let mresp = pl.mresp.clone();
            stats.transitions += 1;
            let opd = Some(aop.show());
            let mut replaced: Option<bool> = None;
            let mut t_resps: Vec<Option<SResp>> = vec![None; nsut];
            let mut t_raws: Vec<Option<(SResp, RawHttp, SymTab)>> = vec![None; nsut];
            let av_key: Option<(Cid, Sid)> = match (&aop, &sop) {
                (AOp::AddVersion { pay: crate::alphabet::Pay::Unique, .. }, SymOp::AddVersion { c, parent, .. }) => Some((*c, *parent)),
                _ => None,
            };
            let mut t_dumps: Vec<Option<SymDump>> = vec![None; nsut];
            let mut child_ok = true;
            for i in 0..nsut {
                if sts[i].diverged {
                    continue;
                }
                let http = self.suts[i].sut.spec.is_http();
                let r = exec(&mut self.suts[i], &node.model, &sop, new_sid);
                stats.impl_transitions += 1;
                let raw = self.suts[i].sut.last_raw.clone();
                let d2 = self.suts[i].dump_fast();
                let (sd2, an2) = self.suts[i].symbolize_dump(&d2);
                stats.outcome(&format!("{}:{}", match &aop { AOp::AddVersion{..} => "AddVersion", AOp::AddSnapshot{..} => "AddSnapshot", AOp::Age{..} => "Age" }, r.kind()));

                // resolve `Either` with what the first implementation did
                if let (Some(Some(SnapDecision::Either)), SymOp::AddSnapshot { c, v, data }) = (&decision, &sop) {
                    if replaced.is_none() {
                        let now = sd2.clients.get(c).and_then(|x| x.snapshot.as_ref()).map(|s| (s.version, s.data.clone()));
                        replaced = Some(now == Some((*v, data.clone())));
                        stats.outcome(if replaced == Some(true) { "AddSnapshot:base-accepted" } else { "AddSnapshot:base-declined" });
                    }
                }
                // the model after this transition
                let (m2, rep) = finalize(&pl, replaced);
                if let Some(rep) = rep {
                    stats.outcome(if rep { "AddSnapshot:replaced" } else { "AddSnapshot:kept" });
                }
                let resp_ok = match &mresp {
                    Some(m) => resp_matches(m, &r, http),
                    None => if r.is_failure() { Err(format!("environment step failed: {:?}", r)) } else { Ok(()) },
                };
                let dump_ok = dump_matches(&m2, &sd2, &an2);
                let is_mut = m2.clients != node.model.clients;

                // attribution of model deviations
                let (mon_resp, mon_state): (&'static str, &'static str) = match &aop {
                    AOp::AddVersion { .. } => ("C02", "C02"),
                    AOp::AddSnapshot { .. } => ("C10", "C10"),
                    AOp::Age { .. } => ("ENV", "ENV"),
                };
                let mut deviates = false;
                let mut c09_solo = false;
                if let Err(e) = &resp_ok {
                    deviates = true;
                    // an urgency-only mismatch belongs to C12
                    let urgency_only = matches!((&mresp, &r), (Some(MResp::AvOk { id, .. }), SResp::AvOk { id: i2, fresh: true, .. }) if id == i2);
                    let mon = if urgency_only { "C12" } else { mon_resp };
                    if self.mon(mon) {
                        find!(mon, i, if urgency_only { "urgency" } else { "response" }, opd.clone(), "{e}");
                    } else if self.mon("C09") && self.params.solo_runs && !urgency_only && node.steps.iter().any(|s| s.aop.client() != aop.client()) {
                        // a wrong answer is C09's business when other clients' requests made it
                        // wrong: decided below by running this client's requests alone
                        c09_solo = true;
                    } else {
                        stats.collateral += 1;
                    }
                }
                if let Err(e) = &dump_ok {
                    deviates = true;
                    // the versions-since-snapshot counter of any client being off is C12's business
                    // whatever the request was
                    let md = m2.dump();
                    let counter_off = md.clients.iter().any(|(c, mc)| match (mc.snapshot.as_ref(), sd2.clients.get(c).and_then(|x| x.snapshot.as_ref())) {
                        (Some(a), Some(b)) => a.version == b.version && a.since != b.since,
                        _ => false,
                    });
                    if counter_off && self.mon("C12") && mon_state != "C12" {
                        find!("C12", i, "counter", opd.clone(), "versions-since-snapshot counter after the request: {e}");
                    } else if self.mon(mon_state) {
                        find!(mon_state, i, "state", opd.clone(), "state after the request: {e}");
                    } else {
                        // whose business the difference is follows from what differs (a snapshot
                        // of another client overwritten by this request is C11's and C09's, not
                        // only the acceptance rule's)
                        let mut tags = state_tags(&m2, &sd2, &an2);
                        let me = aop.client();
                        let other_touched = md.clients.iter().any(|(c, mc)| *c != me && sd2.clients.get(c) != Some(mc)) || sd2.clients.keys().any(|c| *c != me && !md.clients.contains_key(c));
                        if other_touched {
                            tags.push("C09");
                        }
                        match tags.into_iter().find(|t| self.mon(t)) {
                            Some(t) => find!(t, i, "state", opd.clone(), "state after the request: {e}"),
                            None => stats.collateral += 1,
                        }
                    }
                }
                for m in ["C02", "C10", "C12"] { if self.mon(m) { stats.eval(m); } }

                // C10 extras: declined => byte-identical record; position never decreases
                if self.mon("C10") {
                    if let (AOp::AddSnapshot { c, .. }, Some(dsn)) = (&aop, &decision) {
                        let before = sts[i].dump.clients.get(&self.suts[i].cuuid(*c)).cloned();
                        let after = d2.clients.get(&self.suts[i].cuuid(*c)).cloned();
                        let rep = rep.unwrap_or(false);
                        if (!rep || dsn.is_none()) && before != after {
                            find!("C10", i, "declined-but-touched", opd.clone(), "declined AddSnapshot changed the client record: {:?} -> {:?}", before, after);
                        }
                        // monotonicity along the chain (by the implementation's own dump)
                        let posn = |sd: &SymDump| -> Option<i64> {
                            let v = sd.clients.get(c)?.snapshot.as_ref()?.version;
                            m2.clients.get(c).and_then(|cl| cl.position(v))
                        };
                        if let (Some(p0), Some(p1)) = (posn(&sts[i].sdump), posn(&sd2)) {
                            if p1 < p0 {
                                find!("C10", i, "moved-backwards", opd.clone(), "snapshot moved from chain position {p0} back to {p1}");
                            }
                        }
                    }
                }
                // C18: non-mutating outcomes leave everything untouched (concrete dump, raw tables)
                if self.mon("C18") {
                    let non_mut = match (&aop, &r) {
                        (AOp::AddVersion { .. }, SResp::AvConflict { .. }) => true,
                        (AOp::AddVersion { .. }, SResp::NoSuchClient) => true,
                        (AOp::AddSnapshot { .. }, SResp::NoSuchClient) => true,
                        (AOp::AddSnapshot { .. }, SResp::SnapOk) => !is_mut,
                        // a request that was not served (error answer, no answer) is a refused one
                        (AOp::AddVersion { .. } | AOp::AddSnapshot { .. }, r) if r.is_failure() => true,
                        _ => false,
                    };
                    if non_mut {
                        stats.eval("C18");
                        if d2.clients != sts[i].dump.clients || d2.versions != sts[i].dump.versions || d2.raw != sts[i].dump.raw {
                            find!("C18", i, "rejected-write-changed-state", opd.clone(),
                                "answer {:?} but stored state changed: clients {:?} -> {:?}; versions {} -> {}",
                                r.kind(), sts[i].dump.clients, d2.clients, sts[i].dump.versions.len(), d2.versions.len());
                        }
                    }
                }
                // C09: other clients' stored data untouched by this request
                if self.mon("C09") {
                    stats.eval("C09");
                    let me = self.suts[i].cuuid(aop.client());
                    let oc_b: Vec<_> = sts[i].dump.clients.iter().filter(|(k, _)| **k != me).collect();
                    let oc_a: Vec<_> = d2.clients.iter().filter(|(k, _)| **k != me).collect();
                    let ov_b: Vec<_> = sts[i].dump.versions.iter().filter(|v| v.0 != me).collect();
                    let ov_a: Vec<_> = d2.versions.iter().filter(|v| v.0 != me).collect();
                    if oc_b != oc_a || ov_b != ov_a {
                        find!("C09", i, "touched-other-client", opd.clone(), "a request of client {} changed data of another client", (b'A' + aop.client()) as char);
                    }
                }
                // C20 / C14 on the transition's raw response
                if let Some(raw) = &raw {
                    stats.http_responses += 1;
                    if self.mon("C20") {
                        stats.eval("C20");
                        if !cache_control_ok(raw) {
                            find!("C20", i, "no-cache-control", opd.clone(), "response without Cache-Control: no-store: {}", raw.brief());
                        }
                    }
                }
                if let Some(k) = av_key {
                    match &r {
                        SResp::AvOk { .. } => { av_outcomes[i].insert(k, true); }
                        SResp::AvConflict { .. } => { av_outcomes[i].insert(k, false); }
                        _ => {}
                    }
                }
                t_resps[i] = Some(r.clone());
                t_dumps[i] = Some(sd2.clone());
                if deviates {
                    child_ok = false;
                    // the subtree is not explored (the model no longer describes it), but the state
                    // just reached is still examined by the monitors that need no model
                    let mut acc2 = sts[i].acc.clone();
                    if let (SResp::AvOk { id, .. }, SymOp::AddVersion { c, parent, data }) = (&r, &sop) {
                        acc2.per_client.entry(*c).or_default().push((*id, *parent, data.clone()));
                    }
                    let dfull = self.suts[i].dump_concrete();
                    let (sdfull, _an) = self.suts[i].symbolize_dump(&dfull);
                    for (m, class, msg) in self.own_oracle(i, &acc2, &sdfull, " (state reached by a request the model disagrees with)", &mut stats) {
                        find!(m, i, class, opd.clone(), "{msg}");
                    }
                    // C14 there: the same request on the library twin, then every read on both;
                    // what HTTP carries must be the twin's outcome (the property's own wording,
                    // with no model in between)
                    if self.mon("C14") && http {
                        if let Some(t) = self.twin_of(i) {
                            if !sts[t].diverged && t != i {
                                let _ = exec(&mut self.suts[t], &node.model, &sop, new_sid);
                                let mut reads: Vec<SymOp> = vec![];
                                for c in 0..alphabet.n_clients {
                                    let mut ids: Vec<Sid> = probe_ids[&c].iter().map(|x| x.1).collect();
                                    ids.push(new_sid);
                                    if let SymOp::AddVersion { parent, .. } = &sop {
                                        ids.push(*parent);
                                    }
                                    ids.sort();
                                    ids.dedup();
                                    for sid in ids {
                                        reads.push(SymOp::GetChild { c, parent: sid });
                                    }
                                    reads.push(SymOp::GetSnapshot { c });
                                }
                                for rd in reads {
                                    // ids the HTTP side never saw have no concrete value there
                                    let known = match &rd {
                                        SymOp::GetChild { parent, .. } => *parent == NIL || (self.suts[i].tab.is_bound(*parent) && self.suts[t].tab.is_bound(*parent)),
                                        _ => true,
                                    };
                                    if !known {
                                        continue;
                                    }
                                    let want = self.suts[t].apply(&rd, UNKNOWN_SID);
                                    let _got = self.suts[i].apply(&rd, UNKNOWN_SID);
                                    stats.probes += 2;
                                    stats.eval("C14");
                                    if let Some(raw2) = self.suts[i].sut.last_raw.clone() {
                                        if let Err(e) = check_encoding(&rd, &want, &raw2, &self.suts[i].tab) {
                                            find!("C14", i, "encoding-after-deviation", opd.clone(), "after this request {} answers {:?} through the library, but HTTP carried something else: {e}", rd.describe(), want);
                                        }
                                    }
                                }
                                self.restore(t, node, &mut sts[t]);
                            }
                        }
                    }
                }
                // C14 (needs the twin's answer: done below)
                if let Some(raw) = raw {
                    t_raws[i] = Some((r.clone(), raw, self.suts[i].tab.clone()));
                }

                if c09_solo {
                    let c = aop.client();
                    stats.eval("C09");
                    stats.solo_runs += 1;
                    self.suts[i].reset();
                    let mut m = Model::new(self.params.cfg);
                    for st in node.steps.iter().filter(|s| s.aop.client() == c) {
                        let _ = exec(&mut self.suts[i], &m, &st.sop, st.new_sid);
                        if let SymOp::AddVersion { c, .. } = &st.sop {
                            m.clients.entry(*c).or_default();
                        }
                    }
                    let alone = exec(&mut self.suts[i], &m, &sop, new_sid);
                    if alone != r {
                        find!("C09", i, "interference", opd.clone(),
                            "{} answered {:?} after other clients' requests, but {:?} when client {} ran alone (same requests of its own before it)",
                            aop.show(), r, alone, (b'A' + c) as char);
                    } else {
                        stats.collateral += 1;
                    }
                }
                // restore unless provably unchanged
                let unchanged = !c09_solo && d2.clients == sts[i].dump.clients && d2.versions == sts[i].dump.versions;
                if !unchanged {
                    self.restore(i, node, &mut sts[i]);
                } else {
                    self.suts[i].tab = sts[i].tab.clone();
                }
            }
            // C14 on the transition: HTTP response vs the library twin's outcome.
            // The twin accepted a version under its own random id: compare everything but that id
            // by substituting the HTTP side's id (both are bound to the same symbolic id).
            if self.mon("C14") {
                for i in 0..nsut {
                    if let (Some(t), Some((_r, raw, tab))) = (self.twin_of(i), t_raws[i].clone()) {
                        if let Some(tr) = &t_resps[t] {
                            stats.eval("C14");
                            // `tab` is this implementation's symbol table right after the request (new
                            // id bound); the twin bound its own random id to the same symbol
                            if let Err(e) = check_encoding(&sop, tr, &raw, &tab) {
                                find!("C14", i, "encoding", opd.clone(), "library outcome {:?} is not what HTTP carried: {e}", tr);
                            }
                        }
                    }
                }
            }
            // C13 / C16 on the transition
            for (b, i, tag) in self.cross_pairs() {
                if t_resps[i].is_none() || t_resps[b].is_none() {
                    continue;
                }
                stats.eval(tag);
                if t_resps[i] != t_resps[b] {
                    find!(tag, i, "answer-differs", opd.clone(), "{} answered {:?}, {} answered {:?}", self.suts[b].name(), t_resps[b], self.suts[i].name(), t_resps[i]);
                }
                if t_dumps[i] != t_dumps[b] {
                    find!(tag, i, "state-differs", opd.clone(), "state after the request differs between {} and {}: {:?} vs {:?}", self.suts[b].name(), self.suts[i].name(), t_dumps[b], t_dumps[i]);
                }
            }
            if !child_ok {
                continue;
            }
            // child node
            let (model2, replaced) = finalize(&pl, replaced);
            let _ = &model2;
            let mut steps = node.steps.clone();
            steps.push(Step { aop: aop.clone(), sop: sop.clone(), new_sid, expect: mresp.clone(), replaced });
            let child = Node { steps, model: model2 };
            children.push((canon(&child.model), child));
        }
        // ---- C08, part two: with no child stored, not-found <=> an AddVersion with that parent was
        //      accepted from this very state, gone <=> it was rejected (implementation vs itself)
        if self.mon("C08") {
            for i in 0..nsut {
                for ((c, sid), ans) in &gc_answers[i] {
                    let Some(acc) = av_outcomes[i].get(&(*c, *sid)) else { continue };
                    if !sts[i].sdump.clients.contains_key(c) {
                        continue; // unknown client: not-found, and AddVersion creates it
                    }
                    stats.eval("C08");
                    let bad = match ans {
                        SResp::GcNotFound => !*acc,
                        SResp::GcGone => *acc,
                        _ => false,
                    };
                    if bad {
                        find!("C08", i, "inconsistent-with-add-version", Some(format!("GetChild/AddVersion({},#{})", (b'A' + *c) as char, sid)),
                            "GetChild answered {:?} but AddVersion with the same parent from the same state was {}", ans, if *acc { "accepted" } else { "rejected" });
                    }
                }
            }
        }
        (findings, children, stats, prune)
    }

    /// Monitors whose oracle is the implementation itself: every version it acknowledged is
    /// still returned unchanged (C07), the walk from the chain base returns exactly the
    /// acknowledged versions in order and ends not-found (C01), no two stored versions share a
    /// parent and none is missing (C01).
    fn own_oracle(&mut self, i: usize, acc: &Accepted, sdump: &SymDump, tag: &str, stats: &mut Stats) -> Vec<(&'static str, String, String)> {
        let mut out: Vec<(&'static str, String, String)> = vec![];
        for (c, list) in acc.per_client.clone() {
            if self.mon("C08") {
                // "returns the child of p if one exists": a version acknowledged on parent p is
                // the child of p, whatever the implementation stored
                for (id, parent, data) in &list {
                    stats.eval("C08");
                    let r = self.suts[i].apply(&SymOp::GetChild { c, parent: *parent }, UNKNOWN_SID);
                    stats.probes += 1;
                    let ok = matches!(&r, SResp::GcFound { id: i2, parent: p2, data: d2 } if i2 == id && p2 == parent && d2 == data);
                    if !ok {
                        out.push(("C08", "acknowledged-child-not-returned".into(), format!(
                            "version #{id} was acknowledged as the child of #{parent}; GetChildVersion(#{parent}) answers {:?}{tag}", r)));
                    }
                }
            }
            if self.mon("C07") {
                for (id, parent, data) in &list {
                    stats.eval("C07");
                    let op = SymOp::GetChild { c, parent: *parent };
                    let r = self.suts[i].apply(&op, UNKNOWN_SID);
                    stats.probes += 1;
                    let ok = matches!(&r, SResp::GcFound { id: i2, parent: p2, data: d2 } if i2 == id && p2 == parent && d2 == data);
                    if !ok {
                        out.push(("C07", "accepted-version-changed".into(), format!(
                            "version #{id} (parent #{parent}, payload {}) was acknowledged earlier; GetChild(parent) now answers {:?}{tag}", show_bytes(data), r)));
                    }
                }
            }
            if self.mon("C01") && !list.is_empty() {
                stats.eval("C01");
                let mut cur = list[0].1;
                let mut k = 0usize;
                loop {
                    let op = SymOp::GetChild { c, parent: cur };
                    let r = self.suts[i].apply(&op, UNKNOWN_SID);
                    stats.probes += 1;
                    match r {
                        SResp::GcFound { id, parent, data } => {
                            if k >= list.len() {
                                out.push(("C01", "walk-too-long".into(), format!("walk returned #{id} after all {} accepted versions{tag}", list.len())));
                                break;
                            }
                            let (eid, ep, ed) = &list[k];
                            if id != *eid || parent != *ep || data != *ed || parent != cur {
                                out.push(("C01", "walk-wrong-version".into(), format!("walk step {k}: expected accepted version #{eid} (parent #{ep}), got #{id} (parent #{parent}){tag}")));
                                break;
                            }
                            cur = id;
                            k += 1;
                        }
                        SResp::GcNotFound => {
                            if k != list.len() {
                                out.push(("C01", "walk-ends-early".into(), format!("walk ended not-found after {k} of {} accepted versions (at #{cur}){tag}", list.len())));
                            }
                            break;
                        }
                        other => {
                            out.push(("C01", "walk-broken".into(), format!("walk step {k} at #{cur} answered {:?}; {} versions were accepted{tag}", other, list.len())));
                            break;
                        }
                    }
                }
            }
        }
        if self.mon("C01") {
            stats.eval("C01");
            let mut seen: HashSet<(Cid, Sid)> = HashSet::new();
            for (c, id, p, _) in &sdump.versions {
                if !seen.insert((*c, *p)) {
                    out.push(("C01", "fork".into(), format!("two stored versions of client {} share parent #{p} (one is #{id}){tag}", (b'A' + *c) as char)));
                }
            }
            for (c, list) in &acc.per_client {
                for (id, p, _) in list {
                    if !sdump.versions.iter().any(|(vc, vi, vp, _)| vc == c && vi == id && vp == p) {
                        out.push(("C01", "orphan".into(), format!("acknowledged version #{id} (parent #{p}) is not stored{tag}")));
                    }
                }
            }
        }
        out
    }

    /// Pairs (reference, other, monitor) whose answers and states must coincide: all
    /// implementations against the first (C13); an allow-listed HTTP server against its
    /// list-less twin on the same backend (C16).
    fn cross_pairs(&self) -> Vec<(usize, usize, &'static str)> {
        let mut v = vec![];
        if self.mon("C13") {
            for i in 1..self.suts.len() {
                v.push((0, i, "C13"));
            }
        }
        if self.mon("C16") {
            for i in 0..self.suts.len() {
                let sp = self.suts[i].sut.spec;
                if sp.allow_all {
                    if let Some(t) = self.suts.iter().position(|s| !s.sut.spec.allow_all && s.sut.spec.is_http() && s.sut.spec.backend == sp.backend) {
                        v.push((t, i, "C16"));
                    }
                }
            }
        }
        v
    }

    /// The library implementation over the same backend kind (C14's twin).
    fn twin_of(&self, i: usize) -> Option<usize> {
        let sp = self.suts[i].sut.spec;
        if !sp.is_http() {
            return None;
        }
        self.suts.iter().position(|s| !s.sut.spec.is_http() && s.sut.spec.backend == sp.backend && !s.sut.spec.reopen_each)
    }
}

// ---------------------------------------------------------------------------------------------
// (de)serialisation for the worker-process protocol

const MONITORS: &[&str] = &["C01", "C02", "C07", "C08", "C09", "C10", "C11", "C12", "C13", "C14", "C16", "C18", "C19", "C20", "REPLAY", "MACHINERY", "ENV"];

fn static_mon(s: &str) -> &'static str {
    MONITORS.iter().find(|m| **m == s).copied().unwrap_or("MACHINERY")
}

/// An implementation name nobody knows is a defect of the harness: stop, do not explore less.
fn spec_from_name(n: &str) -> Option<SutSpec> {
    Some(crate::sut::spec_from_name(n).unwrap_or_else(|| panic!("unknown implementation name {n:?} in worker parameters")))
}

pub fn params_to_json(p: &SeqParams) -> Value {
    json!({
        "n_clients": p.alphabet.n_clients, "anc_max": p.alphabet.anc_max, "foreign": p.alphabet.foreign,
        "dup": p.alphabet.dup_payload, "big": p.alphabet.big_payload, "huge": p.alphabet.huge_payload, "id_family": p.alphabet.id_family, "snapshots": p.alphabet.snapshots, "ages": p.alphabet.ages,
        "days": p.cfg.days, "versions": p.cfg.versions,
        "specs": p.specs.iter().map(|s| s.name()).collect::<Vec<_>>(),
        "max_depth": p.max_depth, "unmerged_depth": p.unmerged_depth, "monitors": p.monitors,
        "reopen_probe": p.reopen_probe, "solo_runs": p.solo_runs, "max_states": p.max_states,
        "wall_cap_s": p.wall_cap_s, "threads": p.threads, "seed": p.seed, "reopen_subsets_up_to": p.reopen_subsets_up_to,
    })
}

pub fn params_from_json(v: &Value) -> SeqParams {
    SeqParams {
        alphabet: Alphabet {
            n_clients: v["n_clients"].as_u64().unwrap() as u8,
            anc_max: v["anc_max"].as_u64().unwrap() as u8,
            foreign: v["foreign"].as_bool().unwrap(),
            dup_payload: v["dup"].as_bool().unwrap(),
            snapshots: v["snapshots"].as_bool().unwrap(),
            ages: v["ages"].as_array().unwrap().iter().map(|x| x.as_i64().unwrap()).collect(),
            big_payload: v["big"].as_bool().unwrap_or(false),
            huge_payload: v["huge"].as_bool().unwrap_or(false),
            id_family: v["id_family"].as_u64().unwrap_or(0) as u8,
        },
        cfg: Config { days: v["days"].as_i64().unwrap(), versions: v["versions"].as_u64().unwrap() as u32 },
        specs: v["specs"].as_array().unwrap().iter().filter_map(|x| spec_from_name(x.as_str().unwrap())).collect(),
        max_depth: v["max_depth"].as_u64().unwrap() as usize,
        unmerged_depth: v["unmerged_depth"].as_u64().unwrap() as usize,
        monitors: v["monitors"].as_array().unwrap().iter().map(|x| static_mon(x.as_str().unwrap())).collect(),
        reopen_probe: v["reopen_probe"].as_bool().unwrap(),
        solo_runs: v["solo_runs"].as_bool().unwrap(),
        max_states: v["max_states"].as_u64().unwrap() as usize,
        wall_cap_s: v["wall_cap_s"].as_f64().unwrap(),
        threads: v["threads"].as_u64().unwrap() as usize,
        seed: v["seed"].as_u64().unwrap(),
        reopen_subsets_up_to: v["reopen_subsets_up_to"].as_u64().unwrap_or(0) as usize,
    }
}

fn node_to_json(n: &Node) -> Value {
    json!({
        "hist": n.steps.iter().map(|s| s.aop.show()).collect::<Vec<_>>(),
        "replaced": n.steps.iter().map(|s| s.replaced).collect::<Vec<_>>(),
    })
}

fn node_from_json(cfg: Config, v: &Value) -> Option<Node> {
    let hist: Vec<AOp> = v["hist"].as_array()?.iter().map(|x| AOp::parse(x.as_str()?)).collect::<Option<Vec<_>>>()?;
    let replaced: Vec<Option<bool>> = v["replaced"].as_array()?.iter().map(|x| x.as_bool()).collect();
    rebuild_node(cfg, &hist, &replaced)
}

fn finding_to_json(f: &Finding) -> Value {
    json!({"monitor": f.monitor, "sut": f.sut, "class": f.class, "msg": f.msg, "history": f.history, "op": f.op})
}

fn finding_from_json(v: &Value) -> Finding {
    Finding {
        monitor: static_mon(v["monitor"].as_str().unwrap_or("MACHINERY")),
        sut: v["sut"].as_str().unwrap_or("").to_string(),
        class: v["class"].as_str().unwrap_or("").to_string(),
        msg: v["msg"].as_str().unwrap_or("").to_string(),
        history: v["history"].as_array().map(|a| a.iter().map(|x| x.as_str().unwrap_or("").to_string()).collect()).unwrap_or_default(),
        op: v["op"].as_str().map(|s| s.to_string()),
    }
}

fn stats_to_json(s: &Stats) -> Value {
    json!({
        "states": s.states, "transitions": s.transitions, "impl_transitions": s.impl_transitions, "probes": s.probes,
        "replays": s.replays, "solo_runs": s.solo_runs, "collateral": s.collateral, "http_responses": s.http_responses, "reopen_subsets": s.reopen_subsets,
        "outcomes": s.outcomes, "monitor_evals": s.monitor_evals.iter().map(|(k, v)| (k.to_string(), *v)).collect::<BTreeMap<String, u64>>(),
    })
}

fn stats_from_json(v: &Value) -> Stats {
    let mut s = Stats::default();
    let g = |k: &str| v[k].as_u64().unwrap_or(0);
    s.states = g("states");
    s.transitions = g("transitions");
    s.impl_transitions = g("impl_transitions");
    s.probes = g("probes");
    s.replays = g("replays");
    s.solo_runs = g("solo_runs");
    s.collateral = g("collateral");
    s.http_responses = g("http_responses");
    s.reopen_subsets = g("reopen_subsets");
    if let Some(o) = v["outcomes"].as_object() {
        for (k, x) in o {
            s.outcomes.insert(k.clone(), x.as_u64().unwrap_or(0));
        }
    }
    if let Some(o) = v["monitor_evals"].as_object() {
        for (k, x) in o {
            s.monitor_evals.insert(static_mon(k), x.as_u64().unwrap_or(0));
        }
    }
    s
}

/// Worker process: process nodes sent by the coordinator.
pub fn worker_main() {
    crate::pool::serve(|pv| {
        let params = params_from_json(pv);
        let mut w = Worker::new(&params);
        move |task: &Value| -> Value {
            let Some(node) = node_from_json(w.params.cfg, task) else {
                return json!({"error": "cannot rebuild node"});
            };
            let r = std::panic::catch_unwind(std::panic::AssertUnwindSafe(|| w.process(&node)));
            match r {
                Ok((f, ch, st, _)) => json!({
                    "findings": f.iter().map(finding_to_json).collect::<Vec<_>>(),
                    "children": ch.iter().map(|(k, n)| json!({"canon": k, "node": node_to_json(n)})).collect::<Vec<_>>(),
                    "stats": stats_to_json(&st),
                }),
                Err(e) => {
                    // the worker's implementations may be in an undefined state: rebuild them
                    w = Worker::new(&params);
                    json!({"error": format!("explorer panicked while processing {:?}: {}", node.history(), crate::sut::panic_msg(e))})
                }
            }
        }
    });
}

pub fn run(params: &SeqParams) -> SeqResult {
    let r = run_inner(params);
    // client ids of whatever family this run used do not outlive it in this process
    crate::sut::set_id_family(0);
    r
}

fn run_inner(params: &SeqParams) -> SeqResult {
    let start = Instant::now();
    let mut total = Stats::default();
    let mut findings: Vec<Finding> = vec![];
    let mut seen: HashSet<String> = HashSet::new();
    let root = Node { steps: vec![], model: Model::new(params.cfg) };
    seen.insert(canon(&root.model));
    let mut frontier = vec![root];
    let mut exhaustive = true;
    let mut cap_note = None;
    let mut samples: Vec<Value> = vec![];
    let mut level_sizes = vec![];
    let mut depth = 0usize;
    let mut nstates = 0usize;
    let mut pool = crate::pool::Pool::spawn(params.threads, "seq", &params_to_json(params));
    while !frontier.is_empty() {
        level_sizes.push(frontier.len());
        if nstates + frontier.len() > params.max_states {
            exhaustive = false;
            cap_note = Some(format!("state cap {} reached at depth {depth} ({} states pending); all shallower levels are complete", params.max_states, frontier.len()));
            break;
        }
        if start.elapsed().as_secs_f64() > params.wall_cap_s {
            exhaustive = false;
            cap_note = Some(format!("wall-clock cap {}s reached before depth {depth} ({} states pending); all shallower levels are complete", params.wall_cap_s, frontier.len()));
            break;
        }
        nstates += frontier.len();
        for n in frontier.iter().rev().take(2) {
            if samples.len() < 12 && !n.steps.is_empty() {
                samples.push(json!(n.history()));
            }
        }
        let tasks: Vec<Value> = frontier.iter().map(node_to_json).collect();
        let results = pool.map(&tasks);
        let mut next = vec![];
        for (k, r) in results.into_iter().enumerate() {
            let v = match r {
                Ok(v) => v,
                Err(e) => {
                    findings.push(Finding { monitor: "MACHINERY", sut: "-".into(), class: "worker".into(), msg: e, history: frontier[k].history(), op: None });
                    continue;
                }
            };
            if let Some(e) = v["error"].as_str() {
                findings.push(Finding { monitor: "MACHINERY", sut: "-".into(), class: "worker".into(), msg: e.to_string(), history: frontier[k].history(), op: None });
                continue;
            }
            total.add(&stats_from_json(&v["stats"]));
            if let Some(fs) = v["findings"].as_array() {
                findings.extend(fs.iter().map(finding_from_json));
            }
            if let Some(chs) = v["children"].as_array() {
                for ch in chs {
                    let key = ch["canon"].as_str().unwrap_or("").to_string();
                    let Some(child) = node_from_json(params.cfg, &ch["node"]) else { continue };
                    let d = child.steps.len();
                    if d <= params.unmerged_depth {
                        seen.insert(key);
                        next.push(child);
                    } else if seen.insert(key) {
                        next.push(child);
                    } else {
                        total.merges += 1;
                    }
                }
            }
        }
        total.max_depth_done = depth;
        depth += 1;
        frontier = next;
        if depth > params.max_depth {
            break;
        }
    }
    drop(pool);
    SeqResult { stats: total, findings, exhaustive, cap_note, samples, level_sizes }
}

/// Re-execute one history (every prefix state is processed with all monitors), no exploration.
pub fn replay_history(params: &SeqParams, hist: &[AOp], extra: Option<&AOp>) -> Vec<Finding> {
    let mut p = params.clone();
    p.max_depth = 0;
    let mut findings = vec![];
    let mut node = Node { steps: vec![], model: Model::new(p.cfg) };
    let mut w = Worker::new(&p);
    let mut all: Vec<AOp> = hist.to_vec();
    if let Some(e) = extra {
        all.push(e.clone());
    }
    for k in 0..=all.len() {
        // process state; to follow the recorded path, temporarily allow depth and pick the child
        w.params.max_depth = if k < all.len() { usize::MAX } else { 0 };
        let (f, children, _st, _) = w.process(&node);
        for x in f {
            if !findings.iter().any(|y: &Finding| y.monitor == x.monitor && y.class == x.class && y.sut == x.sut && y.history == x.history && y.op == x.op) {
                findings.push(x);
            }
        }
        if k == all.len() {
            break;
        }
        match children.into_iter().find(|(_, c)| c.steps.last().map(|s| &s.aop) == Some(&all[k])) {
            Some((_, c)) => node = c,
            None => break,
        }
    }
    findings
}
