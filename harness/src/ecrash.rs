//! E-CRASH — crash-point and torn-write enumeration on the real SQLite write path
//! (DESIGN.md 4.4, property C04).
//!
//! A request history is executed by the real code over the shim VFS, which records the totally
//! ordered log of file operations. For every position of that log a process-crash image and the
//! power-loss images (last synced content + subsets of later writes) are materialised and
//! recovered by the real code, and the recovered protocol state is compared with the reference
//! model after the acknowledged prefix (or that prefix plus the complete in-flight request).

use crate::model::{Cid, Config, Model, Sid, NIL};
use crate::sut::{client_uuid, dump_api, dump_sql_raw, read_dir_image, write_dir_image, DirImage, Req, Resp, Scratch, Sut, SymOp, SymSut, DB_FILE, SQL_HTTP, SQL_LIB};
use crate::vfs::{base, LogEntry, Recorder, VfsCall};
use serde_json::{json, Value};
use std::collections::{BTreeMap, BTreeSet, HashSet};
use std::sync::Arc;
use uuid::Uuid;

const SQLITE_OPEN_DELETEONCLOSE: i32 = 0x8;
const SQLITE_OPEN_CREATE: i32 = 0x4;

#[derive(Clone, Debug)]
pub enum POp {
    Write { off: i64, data: Arc<Vec<u8>> },
    Truncate { size: i64 },
}

fn apply_pop(buf: &mut Vec<u8>, op: &POp) {
    match op {
        POp::Write { off, data } => {
            let off = *off as usize;
            if buf.len() < off + data.len() {
                buf.resize(off + data.len(), 0);
            }
            buf[off..off + data.len()].copy_from_slice(data);
        }
        POp::Truncate { size } => {
            buf.resize(*size as usize, 0);
        }
    }
}

/// A prefix of `data` up to a sector boundary (torn write).
fn torn(op: &POp, keep: usize) -> POp {
    match op {
        POp::Write { off, data } => POp::Write { off: *off, data: Arc::new(data[..keep.min(data.len())].to_vec()) },
        o => o.clone(),
    }
}

#[derive(Clone, Debug, Default)]
pub struct FsFile {
    pub durable: Vec<u8>,
    pub pending: Vec<POp>,
}

impl FsFile {
    pub fn current(&self) -> Vec<u8> {
        let mut b = self.durable.clone();
        for p in &self.pending {
            apply_pop(&mut b, p);
        }
        b
    }
}

#[derive(Clone, Debug, Default)]
pub struct FsModel {
    pub files: BTreeMap<String, FsFile>,
    temp: HashSet<String>,
}

impl FsModel {
    /// Apply one logged call; returns true if the file-system state changed.
    pub fn apply(&mut self, call: &VfsCall, rc: i32) -> bool {
        if rc != 0 {
            return false;
        }
        match call {
            VfsCall::Open { path, flags } => {
                if path == "<temp>" || flags & SQLITE_OPEN_DELETEONCLOSE != 0 {
                    self.temp.insert(path.clone());
                    return false;
                }
                let name = base(path).to_string();
                if flags & SQLITE_OPEN_CREATE != 0 && !self.files.contains_key(&name) {
                    self.files.insert(name, FsFile::default());
                    return true;
                }
                false
            }
            VfsCall::Write { path, off, data } => {
                if self.temp.contains(path) {
                    return false;
                }
                let f = self.files.entry(base(path).to_string()).or_default();
                f.pending.push(POp::Write { off: *off, data: Arc::new(data.clone()) });
                true
            }
            VfsCall::Truncate { path, size } => {
                if self.temp.contains(path) {
                    return false;
                }
                let f = self.files.entry(base(path).to_string()).or_default();
                f.pending.push(POp::Truncate { size: *size });
                true
            }
            VfsCall::Sync { path, .. } => {
                if let Some(f) = self.files.get_mut(base(path)) {
                    if f.pending.is_empty() {
                        return false;
                    }
                    f.durable = f.current();
                    f.pending.clear();
                    return true;
                }
                false
            }
            VfsCall::Delete { path, .. } => self.files.remove(base(path)).is_some(),
            _ => false,
        }
    }

    pub fn process_crash_image(&self) -> DirImage {
        self.files.iter().map(|(k, f)| (k.clone(), f.current())).collect()
    }

    pub fn pending_total(&self) -> usize {
        self.files.values().map(|f| f.pending.len()).sum()
    }
}

/// One request of a crash history.
#[derive(Clone, Debug, PartialEq, Eq, Hash, PartialOrd, Ord)]
pub enum COp {
    /// HTTP AddVersion for a client the server has never seen (multi-transaction path)
    AvNewClient,
    AvSmall,
    Av10k,
    Av1m,
    Av100k,
    Av300k,
    AsSmall,
    As50k,
    /// a snapshot above 1 MiB (several hundred pages; size-gated code paths)
    As2m,
    /// a version / a snapshot of exactly the 100 MiB limit (corpus only)
    AvMax,
    AsMax,
    AsDeclined,
    /// AddVersion that starts while another connection holds the write lock for the first 70
    /// attempts to take it (longer than one busy time-out, shorter than two). A server that
    /// refuses it with "database is locked" leaves nothing; one that goes on must still apply it
    /// completely or not at all at every crash point. Last request of its history, counted as
    /// never acknowledged. Needs `HoldConnection` before it.
    AvAfterLockWait,
    /// not a request: from here on another connection to the database stays open (an overlapping
    /// request that has opened its connection, another worker, another instance), so that closing
    /// a request's own connection no longer checkpoints
    HoldConnection,
}

impl COp {
    pub fn name(&self) -> &'static str {
        match self {
            COp::AvNewClient => "AddVersion(new client B)",
            COp::AvSmall => "AddVersion(A, 20B)",
            COp::Av10k => "AddVersion(A, 10KB)",
            COp::AvAfterLockWait => "AddVersion(A, 20B) after the write lock was busy for 70 attempts",
            COp::Av1m => "AddVersion(A, 1MB)",
            COp::Av100k => "AddVersion(A, 100KB)",
            COp::Av300k => "AddVersion(A, 300KB)",
            COp::AsSmall => "AddSnapshot(A, latest, 20B)",
            COp::As50k => "AddSnapshot(A, latest, 50KB)",
            COp::As2m => "AddSnapshot(A, latest, 1.2MB)",
            COp::AvMax => "AddVersion(A, 100MiB)",
            COp::AsMax => "AddSnapshot(A, latest, 100MiB)",
            COp::AsDeclined => "AddSnapshot(A, unknown id) [declined]",
            COp::HoldConnection => "<another connection stays open>",
        }
    }
    pub fn parse(s: &str) -> Option<COp> {
        [COp::AvNewClient, COp::AvSmall, COp::Av10k, COp::Av1m, COp::Av100k, COp::Av300k, COp::AsSmall, COp::As50k, COp::As2m, COp::AvMax, COp::AsMax, COp::AsDeclined, COp::HoldConnection, COp::AvAfterLockWait].into_iter().find(|c| c.name() == s)
    }
    pub fn all() -> Vec<COp> {
        // (HoldConnection is added by `histories`, it is not a request)
        vec![COp::AvNewClient, COp::AvSmall, COp::Av10k, COp::Av1m, COp::AsSmall, COp::As50k, COp::AsDeclined]
    }
}

fn body(n: usize, tag: u8) -> Vec<u8> {
    (0..n).map(|i| (i as u8).wrapping_mul(31).wrapping_add(tag)).collect()
}

pub struct Recorded {
    pub log: Vec<LogEntry>,
    /// model after i acknowledged requests (index 0 = after directory creation)
    pub models: Vec<Model>,
    pub tab: crate::sut::SymTab,
    pub final_files: DirImage,
    pub ops: Vec<SymOp>,
}

/// Execute `hist` through the real code (HTTP entry over SQLite) with the recorder installed.
pub fn record(hist: &[COp], seed: u64) -> Result<Recorded, String> {
    crate::vfs::install();
    let rec = Arc::new(Recorder::default());
    crate::vfs::set_hook(Some(rec.clone()));
    let cfg = Config { days: 14, versions: 100 };
    let scratch = Scratch::new("crash-rec");
    let dir = scratch.path().join("data");
    rec.marker("begin 0");
    let sut = Sut::open_dir(SQL_HTTP, cfg, &dir, None, Arc::new(crate::wrap::NoProbe)).map_err(|e| format!("creating the database failed: {e:#}"))?;
    rec.marker("ack 0");
    let mut s = SymSut::from_sut(sut, seed, 2);
    let mut model = Model::new(cfg);
    let mut models = vec![model.clone()];
    let mut ops = vec![];
    let mut held: Option<rusqlite::Connection> = None;
    let mut k = 0usize;
    for op in hist.iter() {
        if *op == COp::HoldConnection {
            let con = rusqlite::Connection::open(dir.join(DB_FILE)).map_err(|e| format!("second connection: {e}"))?;
            let _n: i64 = con.query_row("SELECT count(*) FROM clients", [], |r| r.get(0)).map_err(|e| format!("second connection: {e}"))?;
            held = Some(con);
            continue;
        }
        k += 1;
        let latest_a = model.client(0).map(|c| c.latest()).unwrap_or(NIL);
        let sop = match op {
            COp::AvNewClient => {
                // first use creates client B; later uses append to B
                let lb = model.client(1).map(|c| c.latest()).unwrap_or(NIL);
                SymOp::AddVersion { c: 1, parent: lb, data: body(20, k as u8) }
            }
            COp::AvSmall | COp::AvAfterLockWait => SymOp::AddVersion { c: 0, parent: latest_a, data: body(20, k as u8) },
            COp::Av10k => SymOp::AddVersion { c: 0, parent: latest_a, data: body(10_000, k as u8) },
            COp::Av1m => SymOp::AddVersion { c: 0, parent: latest_a, data: body(1_000_000, k as u8) },
            COp::Av100k => SymOp::AddVersion { c: 0, parent: latest_a, data: body(100_000, k as u8) },
            COp::Av300k => SymOp::AddVersion { c: 0, parent: latest_a, data: body(300_000, k as u8) },
            COp::AsSmall => SymOp::AddSnapshot { c: 0, v: latest_a, data: body(20, 100 + k as u8) },
            COp::As50k => SymOp::AddSnapshot { c: 0, v: latest_a, data: body(50_000, 100 + k as u8) },
            COp::As2m => SymOp::AddSnapshot { c: 0, v: latest_a, data: body(1_200_000, 100 + k as u8) },
            COp::AvMax => SymOp::AddVersion { c: 0, parent: latest_a, data: body(100 * 1024 * 1024, k as u8) },
            COp::AsMax => SymOp::AddSnapshot { c: 0, v: latest_a, data: body(100 * 1024 * 1024, 100 + k as u8) },
            COp::AsDeclined => SymOp::AddSnapshot { c: 0, v: 7000 + k as Sid, data: body(20, 200 + k as u8) },
            COp::HoldConnection => unreachable!(),
        };
        rec.marker(&format!("begin {k}"));
        let new_sid = model.next_sid;
        if *op == COp::AvAfterLockWait {
            // the request as it is recorded; whether the server refuses it or goes on, it is never
            // marked acknowledged: from here on every crash point allows "applied" or "absent"
            rec.busy_left.store(70, std::sync::atomic::Ordering::SeqCst);
            let _ = s.apply(&sop, new_sid);
            rec.busy_left.store(0, std::sync::atomic::Ordering::SeqCst);
            if let SymOp::AddVersion { c, parent, data } = &sop {
                let _ = model.add_version(*c, *parent, data, true);
            }
            models.push(model.clone());
            ops.push(sop);
            break;
        }
        let r = s.apply(&sop, new_sid);
        rec.marker(&format!("ack {k}"));
        // advance the model
        match &sop {
            SymOp::AddVersion { c, parent, data } => {
                let m = model.add_version(*c, *parent, data, true);
                crate::sut::resp_matches(&m, &r, true).map_err(|e| format!("history step {k} ({}) on the unfaulted server: {e}", op.name()))?;
            }
            SymOp::AddSnapshot { c, v, data } => {
                if let Some(d) = model.snapshot_decision(*c, *v) {
                    let rep = d == crate::model::SnapDecision::Replace;
                    model.add_snapshot_apply(*c, *v, data, rep);
                }
                if r.is_failure() {
                    return Err(format!("history step {k} ({}) failed on the unfaulted server: {:?}", op.name(), r));
                }
            }
            _ => {}
        }
        models.push(model.clone());
        ops.push(sop);
    }
    drop(held);
    crate::vfs::set_hook(None);
    let final_files = read_dir_image(&dir);
    let log = rec.take();
    Ok(Recorded { log, models, tab: s.tab.clone(), final_files, ops })
}

/// Protocol-level state of a database directory, recovered by the real code.
#[derive(Clone, Debug, PartialEq, Eq)]
pub struct Recovered {
    /// client -> (chain as (id, parent, bytes-hash, len), snapshot (version, bytes-hash, len))
    pub clients: BTreeMap<Cid, (Vec<(Uuid, Uuid, u64, usize)>, Option<(Uuid, u64, usize)>)>,
}

fn h(b: &[u8]) -> u64 {
    let mut x: u64 = 0xcbf29ce484222325;
    for y in b {
        x ^= *y as u64;
        x = x.wrapping_mul(0x100000001b3);
    }
    x
}

/// What the model says must be stored (absent clients and empty clients both omitted).
pub fn expected_state(m: &Model, tab: &crate::sut::SymTab) -> Recovered {
    let mut t = tab.clone();
    let mut r = Recovered { clients: BTreeMap::new() };
    for (c, cl) in &m.clients {
        if cl.chain.is_empty() && cl.snapshot.is_none() {
            continue;
        }
        let chain = cl.chain.iter().map(|v| (t.uuid(v.id), t.uuid(v.parent), h(&v.data), v.data.len())).collect();
        let snap = cl.snapshot.as_ref().map(|s| (t.uuid(s.version), h(&s.data), s.data.len()));
        r.clients.insert(*c, (chain, snap));
    }
    r
}

/// Open an image with the real code and read everything back through the protocol operations.
pub fn recover(img: &DirImage, seed: u64, known_ids: &[Uuid], epilogue: bool) -> Result<Recovered, String> {
    let scratch = Scratch::new("crash-img");
    let dir = scratch.path().join("data");
    write_dir_image(&dir, img);
    let cfg = Config { days: 14, versions: 100 };
    let mut sut = match std::panic::catch_unwind(std::panic::AssertUnwindSafe(|| Sut::open_dir(SQL_LIB, cfg, &dir, None, Arc::new(crate::wrap::NoProbe)))) {
        Ok(Ok(s)) => s,
        Ok(Err(e)) => return Err(format!("database does not open: {e:#}")),
        Err(e) => return Err(format!("opening the database panicked: {}", crate::sut::panic_msg(e))),
    };
    // integrity
    {
        let con = rusqlite::Connection::open(dir.join(DB_FILE)).map_err(|e| format!("raw open failed: {e}"))?;
        let res: String = con.query_row("PRAGMA integrity_check", [], |r| r.get(0)).map_err(|e| format!("integrity_check failed to run: {e}"))?;
        if res != "ok" {
            return Err(format!("PRAGMA integrity_check: {res}"));
        }
    }
    let clients = [client_uuid(seed, 0), client_uuid(seed, 1)];
    let api = dump_api(sut.storage(), &clients, known_ids);
    let raw = dump_sql_raw(&dir);
    if !api.anomalies.is_empty() || !raw.anomalies.is_empty() {
        return Err(format!("inconsistent storage: {:?} {:?}", api.anomalies, raw.anomalies));
    }
    let strip = |m: &BTreeMap<Uuid, (Uuid, Option<(Uuid, u64, i64, Vec<u8>)>)>| -> BTreeMap<Uuid, (Uuid, Option<(Uuid, u64, Vec<u8>)>)> {
        m.iter().map(|(k, (l, s))| (*k, (*l, s.as_ref().map(|(v, n, _, b)| (*v, *n, b.clone()))))).collect()
    };
    if strip(&api.clients) != strip(&raw.clients) || api.versions != raw.versions {
        return Err("raw tables and API view disagree after recovery (rows with ids the history never produced?)".into());
    }
    let mut out = Recovered { clients: BTreeMap::new() };
    for (ci, cu) in clients.iter().enumerate() {
        let Some((latest, snap)) = api.clients.get(cu) else {
            if api.versions.iter().any(|v| v.0 == *cu) {
                return Err("versions stored for a client that has no client record".into());
            }
            continue;
        };
        // walk the chain through the protocol: find the base (a parent that is no version of ours)
        let mine: Vec<_> = api.versions.iter().filter(|v| v.0 == *cu).collect();
        let ids: HashSet<Uuid> = mine.iter().map(|v| v.1).collect();
        let mut chain = vec![];
        if !mine.is_empty() {
            let bases: Vec<Uuid> = mine.iter().map(|v| v.2).filter(|p| !ids.contains(p)).collect();
            if bases.len() != 1 {
                return Err(format!("client {ci}: versions do not form one chain ({} chain starts)", bases.len()));
            }
            let mut cur = bases[0];
            loop {
                match sut.call(&Req::GetChild { c: *cu, parent: cur }) {
                    Resp::GcFound { id, parent, data } => {
                        chain.push((id, parent, h(&data), data.len()));
                        cur = id;
                        if chain.len() > mine.len() {
                            return Err(format!("client {ci}: chain walk does not terminate"));
                        }
                    }
                    Resp::GcNotFound => break,
                    other => return Err(format!("client {ci}: chain walk answered {:?} at {cur}", other)),
                }
            }
            if chain.len() != mine.len() {
                return Err(format!("client {ci}: walk returned {} versions, {} are stored", chain.len(), mine.len()));
            }
            if cur != *latest {
                return Err(format!("client {ci}: chain ends at {cur} but the latest pointer is {latest}"));
            }
        } else if *latest != Uuid::nil() {
            return Err(format!("client {ci}: latest pointer {latest} without any stored version"));
        }
        let gs = sut.call(&Req::GetSnapshot { c: *cu });
        let snap_out = match (snap, gs) {
            (None, Resp::GsNone) => None,
            (Some((v, _, _, data)), Resp::GsFound { id, data: d2 }) => {
                if *v != id || *data != d2 {
                    return Err(format!("client {ci}: GetSnapshot disagrees with the stored record"));
                }
                // usable base
                if *v != Uuid::nil() && !ids.contains(v) && !mine.iter().any(|x| x.2 == *v) {
                    return Err(format!("client {ci}: snapshot version {v} is not on the chain"));
                }
                Some((id, h(&d2), d2.len()))
            }
            (a, b) => return Err(format!("client {ci}: snapshot record {:?} but GetSnapshot answered {:?}", a.as_ref().map(|x| x.0), b)),
        };
        if chain.is_empty() && snap_out.is_none() {
            continue; // existing-but-empty == absent for stored-state comparison
        }
        out.clients.insert(ci as Cid, (chain, snap_out));
    }
    if epilogue {
        // service continues: one more version and snapshot per client
        for cu in clients.iter() {
            let latest = api.clients.get(cu).map(|c| c.0).unwrap_or(Uuid::nil());
            if !api.clients.contains_key(cu) {
                let st = sut.storage().clone();
                let mut txn = st.txn(*cu).map_err(|e| format!("epilogue txn: {e:#}"))?;
                txn.new_client(Uuid::nil()).map_err(|e| format!("epilogue new_client: {e:#}"))?;
                txn.commit().map_err(|e| format!("epilogue commit: {e:#}"))?;
            }
            let id = match sut.call(&Req::AddVersion { c: *cu, parent: latest, data: b"after-crash".to_vec() }) {
                Resp::AvOk { id, .. } => id,
                other => return Err(format!("after recovery AddVersion on latest answered {:?}", other)),
            };
            match sut.call(&Req::GetChild { c: *cu, parent: latest }) {
                Resp::GcFound { id: i2, data, .. } if i2 == id && data == b"after-crash" => {}
                other => return Err(format!("after recovery the new version reads back as {:?}", other)),
            }
            if sut.call(&Req::AddSnapshot { c: *cu, v: id, data: b"snap-after-crash".to_vec() }) != Resp::SnapOk {
                return Err("after recovery AddSnapshot failed".into());
            }
            match sut.call(&Req::GetSnapshot { c: *cu }) {
                Resp::GsFound { id: i2, data } if i2 == id && data == b"snap-after-crash" => {}
                other => return Err(format!("after recovery the new snapshot reads back as {:?}", other)),
            }
        }
    }
    Ok(out)
}

/// Recovery as an operator gets it: the real executable is started on the image, asked for each
/// client's first version and snapshot over TCP, and killed; what it left behind is then read by
/// the library recovery. Start-up code that "tidies" the data directory is part of recovery.
pub fn recover_via_executable(img: &DirImage, seed: u64, known_ids: &[Uuid]) -> Result<Recovered, String> {
    let scratch = Scratch::new("crash-exec");
    let dir = scratch.path().join("data");
    write_dir_image(&dir, img);
    {
        // only an executable that *exits* on this directory has failed to open it; one that is
        // slow to come up on a loaded machine is the harness's problem, not a verdict
        let mut run = crate::ebin::start_plain(&dir).map_err(|e| if e.contains("exited at once") { format!("database does not open through the executable: {e}") } else { format!("MACHINERY: {e}") })?;
        for c in 0..2u8 {
            let cu = client_uuid(seed, c);
            for path in [format!("/v1/client/get-child-version/{}", Uuid::nil()), "/v1/client/snapshot".to_string()] {
                match crate::ebin::http_raw(&run.addrs[0], "GET", &path, &[("X-Client-Id", cu.to_string())], None, false) {
                    Ok(r) if r.status >= 500 => return Err(format!("the restarted executable answered {} to GET {path}", r.status)),
                    Ok(_) => {}
                    Err(e) => {
                        use std::os::unix::process::ExitStatusExt;
                        // (a server killed from outside - SIGKILL, the kernel's OOM killer - did not die of this directory)
                        let gone = matches!(run.child.try_wait(), Ok(Some(st)) if st.signal() != Some(9));
                        return Err(if gone { format!("the restarted executable died on GET {path}: {e}") } else { format!("MACHINERY: the restarted executable did not answer GET {path} in time: {e}") });
                    }
                }
            }
        }
        // killed, not stopped
    }
    let after = read_dir_image(&dir);
    recover(&after, seed, known_ids, false)
}

/// Above this many unsynced writes at a crash point the adversary is reduced to single
/// deviations (see `explore`).
pub const LONG_EPOCH: usize = 64;

pub struct CrashParams {
    /// above the subset cap, pairs of dropped / surviving writes are enumerated up to this many
    /// pending writes (single deviations and all prefixes always are)
    pub pair_limit: usize,
    pub subset_cap_log2: usize,
    pub torn: bool,
    pub seed: u64,
    /// which images are also recovered through the start-up path of the real executable:
    /// 0 none, 1 process-crash images, 2 every image
    pub via_exec: u8,
}

#[derive(Default)]
pub struct CrashStats {
    pub exec_recoveries: u64,
    pub log_len: usize,
    pub crash_points: u64,
    pub images: u64,
    pub distinct_images: u64,
    pub process_images: u64,
    pub power_images: u64,
    pub torn_images: u64,
    pub recovered_before: u64,
    pub recovered_after: u64,
    pub bounded_points: u64,
    pub long_epoch_points: u64,
    pub max_pending: usize,
}

pub struct CrashFinding {
    pub class: String,
    pub msg: String,
    pub point: usize,
    pub image: String,
}

fn image_hash(img: &DirImage) -> u64 {
    let mut x: u64 = 0xcbf29ce484222325;
    for (k, v) in img {
        x ^= h(k.as_bytes());
        x = x.wrapping_mul(0x100000001b3);
        x ^= h(v);
        x = x.wrapping_mul(0x100000001b3);
    }
    x
}

/// Enumerate the crash points `k` with `k % parts == part` of the recorded log.
pub fn explore(rec: &Recorded, p: &CrashParams, part: usize, parts: usize) -> (CrashStats, Vec<CrashFinding>, Option<String>) {
    let mut st = CrashStats::default();
    st.log_len = rec.log.len();
    let mut findings = vec![];
    let mut fs = FsModel::default();
    let known_ids = rec.tab.all_uuids();
    let expected: Vec<Recovered> = rec.models.iter().map(|m| expected_state(m, &rec.tab)).collect();
    let mut acked: usize = 0; // number of acknowledged requests (0 = nothing, not even creation)
    let mut inflight: Option<usize> = None;
    let mut created = false;
    let mut seen: HashSet<(u64, usize, bool)> = HashSet::new();
    let mut point = 0usize;
    // validation of the device model: after the whole log the model must equal the disk
    for (idx, e) in rec.log.iter().enumerate() {
        let changed = match e {
            LogEntry::Marker(m) => {
                let (w, n) = m.split_once(' ').unwrap();
                let n: usize = n.parse().unwrap();
                if w == "begin" {
                    inflight = Some(n);
                } else {
                    inflight = None;
                    acked = n;
                    if n == 0 {
                        created = true;
                    }
                }
                true // request boundaries are crash points too
            }
            LogEntry::Call { call, rc } => fs.apply(call, *rc),
        };
        if !changed {
            continue;
        }
        point += 1;
        if point % parts != part {
            continue;
        }
        st.crash_points += 1;
        st.max_pending = st.max_pending.max(fs.pending_total());
        // allowed outcomes: the acknowledged prefix, or that prefix plus the whole in-flight request
        let acked_model_idx = if created { acked } else { 0 };
        let mut allowed: Vec<&Recovered> = vec![&expected[acked_model_idx]];
        if let Some(n) = inflight {
            if n >= 1 && n < expected.len() {
                allowed.push(&expected[n]);
            }
        }
        // images
        let mut images: Vec<(DirImage, String)> = vec![(fs.process_crash_image(), "process-crash".into())];
        // power loss: per file durable + subset of pending (in log order)
        let pend: Vec<(String, usize)> = fs.files.iter().flat_map(|(k, f)| (0..f.pending.len()).map(move |i| (k.clone(), i))).collect();
        let n = pend.len();
        let mut masks: Vec<Vec<bool>> = vec![];
        if n <= p.subset_cap_log2 {
            for m in 0..(1u64 << n) {
                masks.push((0..n).map(|i| m & (1 << i) != 0).collect());
            }
        } else if n > LONG_EPOCH {
            // a long run of unsynced writes (a multi-megabyte commit or checkpoint): every prefix
            // of it is the process-crash image of an earlier crash point, so only the deviations
            // are new here: nothing survives, everything survives, one write missing at the
            // start / middle / end, the last two missing, only the first or only the last survives
            st.bounded_points += 1;
            st.long_epoch_points += 1;
            masks.push(vec![false; n]);
            masks.push(vec![true; n]);
            for a in [0, n / 2, n - 1] {
                masks.push((0..n).map(|i| i != a).collect());
            }
            masks.push((0..n).map(|i| i + 2 < n).collect());
            masks.push((0..n).map(|i| i == 0).collect());
            masks.push((0..n).map(|i| i == n - 1).collect());
        } else {
            st.bounded_points += 1;
            // every prefix, every all-but-one/two, every only-one/two
            for k in 0..=n {
                masks.push((0..n).map(|i| i < k).collect());
            }
            for a in 0..n {
                masks.push((0..n).map(|i| i != a).collect());
                masks.push((0..n).map(|i| i == a).collect());
                for b in a + 1..n {
                    if n <= p.pair_limit {
                        masks.push((0..n).map(|i| i != a && i != b).collect());
                        masks.push((0..n).map(|i| i == a || i == b).collect());
                    }
                }
            }
        }
        // images are recovered as they are produced (a point with thousands of subsets of
        // megabyte files must not sit in memory all at once)
        macro_rules! drain_images {
            () => {
                for (img, label) in images.drain(..) {
                    st.images += 1;
                    if label.starts_with("process") {
                        st.process_images += 1;
                    } else if label.contains("torn") {
                        st.torn_images += 1;
                    } else {
                        st.power_images += 1;
                    }
                    // identical image with identical obligations: already recovered
                    if !seen.insert((image_hash(&img), acked_model_idx, inflight.is_some())) {
                        continue;
                    }
                    st.distinct_images += 1;
                    let r = recover(&img, p.seed, &known_ids, true);
                    let where_ = format!("crash point {point} (log entry {idx}: {}), {} acknowledged, in flight: {:?}, image: {label}", match e { LogEntry::Call { call, .. } => call.brief(), LogEntry::Marker(m) => format!("<{m}>") }, acked_model_idx, inflight);
                    match r {
                        Err(msg) => {
                            let class = if msg.contains("integrity_check") { "integrity" } else if msg.contains("does not open") { "does-not-open" } else if msg.contains("after recovery") { "service-does-not-continue" } else { "inconsistent" };
                            findings.push(CrashFinding { class: format!("{class}|{}", label.split(' ').next().unwrap_or("")), msg: format!("{msg} — {where_}"), point, image: label });
                        }
                        Ok(got) => {
                            if p.via_exec == 2 || (p.via_exec == 1 && label.starts_with("process")) {
                                st.exec_recoveries += 1;
                                match recover_via_executable(&img, p.seed, &known_ids) {
                                    Ok(g2) if g2 == got => {}
                                    Ok(g2) => findings.push(CrashFinding {
                                        class: format!("executable-start-up-changes-what-is-recovered|{}", label.split(' ').next().unwrap_or("")),
                                        msg: format!("the library recovers {:?} from this image, but after the real executable was started on it (and killed) {:?} is left — {where_}", summarize(&got), summarize(&g2)),
                                        point,
                                        image: label.clone(),
                                    }),
                                    Err(m2) if m2.starts_with("MACHINERY:") => findings.push(CrashFinding { class: "machinery".into(), msg: format!("{m2} — {where_}"), point, image: label.clone() }),
                                    Err(m2) => findings.push(CrashFinding {
                                        class: format!("executable-start-up-breaks-recovery|{}", label.split(' ').next().unwrap_or("")),
                                        msg: format!("the library recovers {:?} from this image, but through the real executable: {m2} — {where_}", summarize(&got)),
                                        point,
                                        image: label.clone(),
                                    }),
                                }
                            }
                            if got == *allowed[0] {
                                st.recovered_before += 1;
                            } else if allowed.len() > 1 && got == *allowed[1] {
                                st.recovered_after += 1;
                            } else {
                                let lost = allowed[0].clients.iter().any(|(c, (chain, _))| got.clients.get(c).map(|g| g.0.len() < chain.len()).unwrap_or(!chain.is_empty()));
                                let class = if lost { "acknowledged-data-lost" } else { "half-applied-or-unexpected" };
                                findings.push(CrashFinding {
                                    class: format!("{class}|{}", label.split(' ').next().unwrap_or("")),
                                    msg: format!("recovered state matches neither the acknowledged prefix nor prefix+in-flight request: recovered {:?}, acknowledged {:?} — {where_}", summarize(&got), summarize(allowed[0])),
                                    point,
                                    image: label,
                                });
                            }
                        }
                    }
                }
            };
        }
        for mask in &masks {
            let mut img = DirImage::new();
            for (name, f) in &fs.files {
                let mut b = f.durable.clone();
                for (j, pop) in f.pending.iter().enumerate() {
                    let gi = pend.iter().position(|(k, i)| k == name && *i == j).unwrap();
                    if mask[gi] {
                        apply_pop(&mut b, pop);
                    }
                }
                img.insert(name.clone(), b);
            }
            let label = format!("power-loss keep={}", mask.iter().map(|b| if *b { '1' } else { '0' }).collect::<String>());
            images.push((img, label));
            // torn last surviving write
            if p.torn {
                if let Some(last) = (0..n).rev().find(|i| mask[*i]) {
                    let (fname, j) = &pend[last];
                    if let POp::Write { data, .. } = &fs.files[fname].pending[*j] {
                        let mut cut = 512;
                        while cut < data.len() {
                            let mut img = DirImage::new();
                            for (name, f) in &fs.files {
                                let mut b = f.durable.clone();
                                for (jj, pop) in f.pending.iter().enumerate() {
                                    let gi = pend.iter().position(|(k, i)| k == name && *i == jj).unwrap();
                                    if mask[gi] {
                                        if name == fname && jj == *j {
                                            apply_pop(&mut b, &torn(pop, cut));
                                        } else {
                                            apply_pop(&mut b, pop);
                                        }
                                    }
                                }
                                img.insert(name.clone(), b);
                            }
                            images.push((img, format!("power-loss keep={} torn@{cut}", mask.iter().map(|b| if *b { '1' } else { '0' }).collect::<String>())));
                            cut += 512;
                            if data.len() > 8192 && cut > 2048 && cut < data.len() - 1024 {
                                cut = data.len() - 1024; // long writes: first and last sectors only
                            }
                        }
                    }
                }
            }
            if images.len() >= 4 {
                drain_images!();
            }
        }
        drain_images!();
    }
    // device-model conformance
    let mut conf = None;
    let model_final = fs.process_crash_image();
    let disk: DirImage = rec.final_files.iter().filter(|(k, _)| !k.ends_with("-shm")).map(|(k, v)| (k.clone(), v.clone())).collect();
    if model_final != disk {
        conf = Some(format!(
            "replaying the operation log does not reproduce the files on disk: model {:?} vs disk {:?}",
            model_final.iter().map(|(k, v)| (k.clone(), v.len())).collect::<Vec<_>>(),
            disk.iter().map(|(k, v)| (k.clone(), v.len())).collect::<Vec<_>>()
        ));
    }
    (st, findings, conf)
}

fn summarize(r: &Recovered) -> String {
    let parts: Vec<String> = r.clients.iter().map(|(c, (chain, snap))| format!("{}: {} versions{}", (b'A' + *c) as char, chain.len(), if snap.is_some() { " + snapshot" } else { "" })).collect();
    format!("{{{}}}", parts.join(", "))
}

pub fn histories(quick: bool) -> Vec<Vec<COp>> {
    if quick {
        return vec![
            vec![COp::AvNewClient, COp::AvSmall, COp::AsSmall],
            vec![COp::AvSmall, COp::Av10k, COp::As50k, COp::AvSmall],
            vec![COp::AvSmall, COp::AsSmall, COp::AsDeclined, COp::AvNewClient],
            vec![COp::Av100k],
            vec![COp::HoldConnection, COp::AvSmall, COp::AsSmall, COp::AvNewClient],
            vec![COp::AvSmall, COp::HoldConnection, COp::Av10k, COp::AvSmall],
            // a large snapshot replacing an existing one
            vec![COp::AvSmall, COp::AsSmall, COp::AvSmall, COp::As2m],
            // a request that had to wait for the write lock
            vec![COp::HoldConnection, COp::AvSmall, COp::AvAfterLockWait],
            // a history segment of 300 KB on an existing chain (size thresholds on the write path;
            // the thorough tier has 1 MB alone and as the second request)
            vec![COp::AvSmall, COp::Av300k],
        ];
    }
    let all = COp::all();
    let mut out: Vec<Vec<COp>> = vec![vec![]];
    let mut level: Vec<Vec<COp>> = vec![vec![]];
    for depth in 0..3 {
        let mut next = vec![];
        for hst in &level {
            for o in &all {
                // 1 MB requests (about 250 WAL frames each) only alone or as the second request
                if *o == COp::Av1m && (depth == 2 || hst.contains(&COp::Av1m) || hst.len() > 1) {
                    continue;
                }
                let mut h2 = hst.clone();
                h2.push(o.clone());
                next.push(h2);
            }
        }
        out.extend(next.clone());
        level = next;
    }
    // every history of up to two requests again while another connection stays open
    let mut held = vec![];
    for hst in out.iter().filter(|h| !h.is_empty() && h.len() <= 2) {
        let mut h2 = vec![COp::HoldConnection];
        h2.extend(hst.iter().cloned());
        held.push(h2);
    }
    out.extend(held);
    // large snapshots: first one, and replacing an existing one
    out.push(vec![COp::AvSmall, COp::As2m]);
    out.push(vec![COp::AvSmall, COp::AsSmall, COp::AvSmall, COp::As2m]);
    out.push(vec![COp::AvSmall, COp::As2m, COp::AvSmall, COp::As2m]);
    out.push(vec![COp::HoldConnection, COp::AvSmall, COp::AsSmall, COp::AvSmall, COp::As2m]);
    // requests that had to wait for the write lock
    out.push(vec![COp::HoldConnection, COp::AvSmall, COp::AvAfterLockWait]);
    out.push(vec![COp::HoldConnection, COp::AvSmall, COp::AsSmall, COp::AvAfterLockWait]);
    out.push(vec![COp::HoldConnection, COp::AvAfterLockWait]);
    // a few length-4 histories mixing everything
    out.push(vec![COp::AvNewClient, COp::Av10k, COp::As50k, COp::AvNewClient]);
    out.push(vec![COp::AvSmall, COp::AsSmall, COp::Av1m, COp::AsSmall]);
    out.push(vec![COp::Av10k, COp::Av10k, COp::AsDeclined, COp::As50k]);
    out
}

/// Worker: task = {hist:[names], part, parts, cap, torn}
pub fn worker_main() {
    crate::pool::serve(|pv| {
        let seed = pv["seed"].as_u64().unwrap_or(1);
        move |task: &Value| -> Value {
            let hist: Vec<COp> = task["hist"].as_array().map(|a| a.iter().filter_map(|x| COp::parse(x.as_str().unwrap_or(""))).collect()).unwrap_or_default();
            let p = CrashParams { pair_limit: task["pair_limit"].as_u64().unwrap_or(16) as usize, subset_cap_log2: task["cap"].as_u64().unwrap_or(8) as usize, torn: task["torn"].as_bool().unwrap_or(false), seed, via_exec: task["via_exec"].as_u64().unwrap_or(0) as u8 };
            let part = task["part"].as_u64().unwrap_or(0) as usize;
            let parts = task["parts"].as_u64().unwrap_or(1) as usize;
            let r = std::panic::catch_unwind(std::panic::AssertUnwindSafe(|| {
                let rec = record(&hist, seed)?;
                Ok::<_, String>(explore(&rec, &p, part, parts))
            }));
            match r {
                Ok(Ok((st, f, conf))) => json!({
                    "log_len": st.log_len, "crash_points": st.crash_points, "images": st.images, "distinct_images": st.distinct_images,
                    "process_images": st.process_images, "power_images": st.power_images, "torn_images": st.torn_images,
                    "recovered_before": st.recovered_before, "recovered_after": st.recovered_after, "bounded_points": st.bounded_points, "long_epoch_points": st.long_epoch_points, "max_pending": st.max_pending, "exec_recoveries": st.exec_recoveries,
                    "conformance_error": conf,
                    "findings": f.iter().map(|x| json!({"class": x.class, "msg": x.msg, "point": x.point, "image": x.image})).collect::<Vec<_>>(),
                }),
                Ok(Err(e)) => json!({"error": e}),
                Err(e) => json!({"error": format!("crash worker panicked: {}", crate::sut::panic_msg(e))}),
            }
        }
    });
}

#[allow(dead_code)]
fn _unused(_: BTreeSet<u8>) {}
