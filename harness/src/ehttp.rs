//! E-HTTP — request-grammar enumeration against live state (DESIGN.md 4.2).
//!
//! The full product of route x method x client-id form x path-id form x content-type form x
//! body class is sent through the real actix `App` on servers that hold non-trivial state.
//! Monitors: C15 (malformed => 4xx, never 5xx, nothing changes; limit accepted), C16 (allow-list:
//! 403 without touching storage), C20 (Cache-Control on every response).

use crate::http::{Body, HttpReq, RawHttp, HS_CT, SNAP_CT};
use crate::model::{Cid, Config, Model, Sid, NIL};
use crate::sut::{client_uuid, det_uuid, Dump, Sut, SutSpec, SymOp, SymSut};
use crate::wrap::Counter;
use serde_json::{json, Value};
use std::collections::{BTreeMap, HashSet};
use std::sync::atomic::Ordering;
use std::sync::Arc;
use uuid::Uuid;

pub const MAX_SIZE: usize = 100 * 1024 * 1024;

#[derive(Clone, Copy, Debug, PartialEq, Eq, Hash, PartialOrd, Ord)]
pub enum Route {
    Index,
    AddVersion,
    GetChild,
    AddSnapshot,
    GetSnapshot,
    UnknownLeaf,
    UnknownVersion,
    TrailingSlash,
    WrongPrefix,
}

impl Route {
    fn method(&self) -> &'static str {
        match self {
            Route::AddVersion | Route::AddSnapshot => "POST",
            _ => "GET",
        }
    }
    fn has_pid(&self) -> bool {
        matches!(self, Route::AddVersion | Route::GetChild | Route::AddSnapshot)
    }
    fn is_protocol(&self) -> bool {
        matches!(self, Route::AddVersion | Route::GetChild | Route::AddSnapshot | Route::GetSnapshot)
    }
    fn is_post(&self) -> bool {
        matches!(self, Route::AddVersion | Route::AddSnapshot)
    }
    fn known(&self) -> bool {
        self.is_protocol() || *self == Route::Index
    }
    fn allowed_statuses(&self) -> &'static [u16] {
        match self {
            Route::Index => &[200],
            Route::AddVersion => &[200, 409],
            Route::GetChild => &[200, 404, 410],
            Route::AddSnapshot => &[200, 404],
            Route::GetSnapshot => &[200, 404],
            _ => &[],
        }
    }
}

#[derive(Clone, Copy, Debug, PartialEq, Eq, Hash, PartialOrd, Ord)]
pub enum CidForm {
    /// hyphenated lower case, client A (owns data)
    Known,
    /// hyphenated lower case, client B (owns data; unlisted when an allow-list excludes it)
    KnownB,
    /// well-formed id the server has never seen
    Unseen,
    Absent,
    Empty,
    Upper,
    Simple,
    Braced,
    Urn,
    Len35,
    Len37,
    NonHex,
    NonAscii,
    Duplicate,
    /// two client id headers: client B's first, client A's second
    DuplicateBFirst,
    LeadingSpace,
}

#[derive(Clone, Copy, Debug, PartialEq, Eq, Hash, PartialOrd, Ord)]
pub enum PidForm {
    Latest,
    Nil,
    Fresh,
    NotUuid,
    Empty,
    Overlong,
    Braced,
    Simple,
    Upper,
}

#[derive(Clone, Copy, Debug, PartialEq, Eq, Hash, PartialOrd, Ord)]
pub enum CtForm {
    Right,
    Wrong,
    OtherEndpoints,
    Absent,
    WithParam,
    UpperCase,
}

#[derive(Clone, Copy, Debug, PartialEq, Eq, Hash, PartialOrd, Ord)]
pub enum BodyForm {
    None,
    EmptyChunks,
    One,
    Multi,
    MultiWithEmpty,
    ThenError,
    LimitMinus1,
    Limit,
    LimitPlus1,
    /// the limit is crossed by the last of several chunks
    LimitCrossedLate,
    /// one single chunk larger than the limit
    OneChunkOverLimit,
}

impl BodyForm {
    fn is_big(&self) -> bool {
        matches!(self, BodyForm::LimitMinus1 | BodyForm::Limit | BodyForm::LimitPlus1 | BodyForm::LimitCrossedLate | BodyForm::OneChunkOverLimit)
    }
}

#[derive(Clone, Debug, PartialEq, Eq, Hash, PartialOrd, Ord)]
pub struct Dim {
    pub route: Route,
    pub method: &'static str,
    pub cid: CidForm,
    pub pid: PidForm,
    pub ct: CtForm,
    pub body: BodyForm,
    /// a further request header that invites the framework (content negotiation, conditional
    /// and range requests) to answer by itself
    pub extra: Extra,
}

#[derive(Clone, Copy, Debug, PartialEq, Eq, Hash, PartialOrd, Ord)]
pub enum Extra {
    None,
    AcceptEncodingGzip,
    AcceptEncodingNothing,
    AcceptEncodingStarZero,
    AcceptEncodingUnknownOnly,
    AcceptJson,
    AcceptNothing,
    Range,
    IfNoneMatchStar,
    IfMatchStar,
    IfModifiedSince,
    ConnectionUpgrade,
    ContentEncodingGzip,
    /// not a header: the request line says HTTP/1.0 (what a reverse proxy speaks by default),
    /// HTTP/0.9, HTTP/2
    Http10,
    Http09,
    Http2,
    /// conditional requests naming what the server really holds: the version id of the client's
    /// stored snapshot / latest version as an entity tag (strong, weak, in a list)
    IfNoneMatchSnapshotVersion,
    IfNoneMatchWeakList,
    IfMatchSnapshotVersion,
    IfNoneMatchLatest,
}

impl Extra {
    pub fn all() -> Vec<Extra> {
        use Extra::*;
        vec![AcceptEncodingGzip, AcceptEncodingNothing, AcceptEncodingStarZero, AcceptEncodingUnknownOnly, AcceptJson, AcceptNothing, Range, IfNoneMatchStar, IfMatchStar, IfModifiedSince, ConnectionUpgrade, ContentEncodingGzip, Http10, Http09, Http2, IfNoneMatchSnapshotVersion, IfNoneMatchWeakList, IfMatchSnapshotVersion, IfNoneMatchLatest]
    }
    fn header(&self) -> Option<(&'static str, &'static str)> {
        use Extra::*;
        Some(match self {
            None => return Option::None,
            AcceptEncodingGzip => ("Accept-Encoding", "gzip, deflate, br"),
            AcceptEncodingNothing => ("Accept-Encoding", "identity;q=0"),
            AcceptEncodingStarZero => ("Accept-Encoding", "*;q=0"),
            AcceptEncodingUnknownOnly => ("Accept-Encoding", "compress, identity;q=0"),
            AcceptJson => ("Accept", "application/json"),
            AcceptNothing => ("Accept", "*/*;q=0"),
            Range => ("Range", "bytes=0-0"),
            IfNoneMatchStar => ("If-None-Match", "*"),
            IfMatchStar => ("If-Match", "\"nope\""),
            IfModifiedSince => ("If-Modified-Since", "Thu, 01 Jan 2099 00:00:00 GMT"),
            ConnectionUpgrade => ("Upgrade", "websocket"),
            ContentEncodingGzip => ("Content-Encoding", "gzip"),
            Http10 => (":version", "1.0"),
            Http09 => (":version", "0.9"),
            Http2 => (":version", "2"),
            // (value filled in by `build` from the live state)
            IfNoneMatchSnapshotVersion | IfNoneMatchWeakList | IfMatchSnapshotVersion | IfNoneMatchLatest => return Option::None,
        })
    }
}

#[derive(Clone, Debug, PartialEq, Eq)]
pub enum Class {
    WellFormed,
    Malformed(Vec<&'static str>),
    Ambiguous(Vec<&'static str>),
}

pub fn classify(d: &Dim) -> Class {
    let mut bad: Vec<&'static str> = vec![];
    let mut amb: Vec<&'static str> = vec![];
    if !d.route.known() {
        bad.push("unknown route");
    }
    if d.route.known() && d.method != d.route.method() {
        if d.method == "HEAD" && d.route.method() == "GET" {
            amb.push("HEAD on a GET route");
        } else {
            bad.push("method not offered by this route");
        }
    }
    if d.route.is_protocol() {
        match d.cid {
            CidForm::Known | CidForm::KnownB | CidForm::Unseen => {}
            CidForm::Absent => bad.push("client id absent"),
            CidForm::Empty => bad.push("client id empty"),
            CidForm::Len35 | CidForm::Len37 => bad.push("client id of wrong length"),
            CidForm::NonHex => bad.push("client id not hexadecimal"),
            CidForm::NonAscii => bad.push("client id not text"),
            CidForm::LeadingSpace => amb.push("client id with surrounding whitespace"),
            CidForm::Upper | CidForm::Simple | CidForm::Braced | CidForm::Urn => amb.push("alternative spelling of a well-formed client id"),
            CidForm::Duplicate | CidForm::DuplicateBFirst => amb.push("two client id headers"),
        }
    }
    if d.route.has_pid() {
        match d.pid {
            PidForm::Latest | PidForm::Nil | PidForm::Fresh => {}
            PidForm::NotUuid | PidForm::Overlong => bad.push("malformed id in the path"),
            PidForm::Empty => bad.push("missing id in the path"),
            PidForm::Braced | PidForm::Simple | PidForm::Upper => amb.push("alternative spelling of a well-formed path id"),
        }
    }
    if d.route.is_post() && d.method == "POST" {
        match d.ct {
            CtForm::Right => {}
            CtForm::Wrong | CtForm::OtherEndpoints => bad.push("wrong content type"),
            CtForm::Absent => bad.push("content type absent"),
            CtForm::WithParam => amb.push("content type with a parameter"),
            CtForm::UpperCase => amb.push("content type in a different case"),
        }
        match d.body {
            BodyForm::None | BodyForm::EmptyChunks => bad.push("empty body"),
            BodyForm::ThenError => bad.push("body transfer failed"),
            BodyForm::LimitPlus1 | BodyForm::LimitCrossedLate | BodyForm::OneChunkOverLimit => bad.push("body above the size limit"),
            _ => {}
        }
    }
    if d.extra != Extra::None {
        // the server may honour, ignore or refuse it (4xx): no status is demanded, only that the
        // answer is no 5xx, changes nothing unless it is the request's normal success, and
        // carries the headers every response must carry
        amb.push("negotiation / conditional request header");
    }
    if !bad.is_empty() {
        Class::Malformed(bad)
    } else if !amb.is_empty() {
        Class::Ambiguous(amb)
    } else {
        Class::WellFormed
    }
}

/// Ids of the live state a request is built against.
#[derive(Clone, Debug)]
pub struct Ctx {
    pub a: Uuid,
    pub b: Uuid,
    pub unseen: Uuid,
    pub latest_a: Uuid,
    pub latest_b: Uuid,
    pub fresh: Uuid,
    /// versions the stored snapshots of A and B are for (nil on an empty server)
    pub snap_a: Uuid,
    pub snap_b: Uuid,
}

fn spell(u: Uuid, f: CidForm) -> Vec<Vec<u8>> {
    let h = u.hyphenated().to_string();
    match f {
        CidForm::Known | CidForm::KnownB | CidForm::Unseen => vec![h.into_bytes()],
        CidForm::Absent => vec![],
        CidForm::Empty => vec![vec![]],
        CidForm::Upper => vec![h.to_uppercase().into_bytes()],
        CidForm::Simple => vec![u.simple().to_string().into_bytes()],
        CidForm::Braced => vec![u.braced().to_string().into_bytes()],
        CidForm::Urn => vec![u.urn().to_string().into_bytes()],
        CidForm::Len35 => vec![h[..35].as_bytes().to_vec()],
        CidForm::Len37 => vec![format!("{h}0").into_bytes()],
        CidForm::NonHex => {
            let mut s = h.into_bytes();
            s[3] = b'g';
            vec![s]
        }
        CidForm::NonAscii => {
            let mut s = h.into_bytes();
            s[3] = 0xe9;
            vec![s]
        }
        CidForm::Duplicate | CidForm::DuplicateBFirst => vec![h.clone().into_bytes(), h.into_bytes()],
        CidForm::LeadingSpace => vec![format!(" {h}").into_bytes()],
    }
}

pub fn build(d: &Dim, ctx: &Ctx) -> HttpReq {
    let (client, latest) = match d.cid {
        CidForm::KnownB | CidForm::DuplicateBFirst => (ctx.b, ctx.latest_b),
        CidForm::Unseen => (ctx.unseen, Uuid::nil()),
        _ => (ctx.a, ctx.latest_a),
    };
    let pid_u = match d.pid {
        PidForm::Latest | PidForm::Braced | PidForm::Simple | PidForm::Upper => latest,
        PidForm::Nil => Uuid::nil(),
        _ => ctx.fresh,
    };
    let pid = match d.pid {
        PidForm::Latest | PidForm::Nil | PidForm::Fresh => pid_u.to_string(),
        PidForm::NotUuid => "not-a-uuid".to_string(),
        PidForm::Empty => "".to_string(),
        PidForm::Overlong => format!("{pid_u}-{pid_u}"),
        PidForm::Braced => format!("%7B{}%7D", pid_u),
        PidForm::Simple => pid_u.simple().to_string(),
        PidForm::Upper => pid_u.to_string().to_uppercase(),
    };
    let uri = match d.route {
        Route::Index => "/".to_string(),
        Route::AddVersion => format!("/v1/client/add-version/{pid}"),
        Route::GetChild => format!("/v1/client/get-child-version/{pid}"),
        Route::AddSnapshot => format!("/v1/client/add-snapshot/{pid}"),
        Route::GetSnapshot => "/v1/client/snapshot".to_string(),
        Route::UnknownLeaf => "/v1/client/nope".to_string(),
        Route::UnknownVersion => "/v2/client/snapshot".to_string(),
        Route::TrailingSlash => "/v1/client/snapshot/".to_string(),
        Route::WrongPrefix => "/client/snapshot".to_string(),
    };
    let mut headers: Vec<(String, Vec<u8>)> = vec![];
    let dup_second = ctx.b.to_string().into_bytes();
    let mut vals = spell(client, d.cid);
    if d.cid == CidForm::Duplicate {
        vals[1] = dup_second;
    } else if d.cid == CidForm::DuplicateBFirst {
        vals[1] = ctx.a.to_string().into_bytes();
    }
    for v in vals {
        headers.push(("X-Client-Id".into(), v));
    }
    let right_ct = match d.route {
        Route::AddSnapshot => SNAP_CT,
        _ => HS_CT,
    };
    let other_ct = match d.route {
        Route::AddSnapshot => HS_CT,
        _ => SNAP_CT,
    };
    match d.ct {
        CtForm::Right => headers.push(("Content-Type".into(), right_ct.as_bytes().to_vec())),
        CtForm::Wrong => headers.push(("Content-Type".into(), b"text/plain".to_vec())),
        CtForm::OtherEndpoints => headers.push(("Content-Type".into(), other_ct.as_bytes().to_vec())),
        CtForm::Absent => {}
        CtForm::WithParam => headers.push(("Content-Type".into(), format!("{right_ct}; charset=utf-8").into_bytes())),
        CtForm::UpperCase => headers.push(("Content-Type".into(), right_ct.to_uppercase().into_bytes())),
    }
    if let Some((k, v)) = d.extra.header() {
        headers.push((k.into(), v.as_bytes().to_vec()));
    }
    {
        let snap = match d.cid {
            CidForm::KnownB | CidForm::DuplicateBFirst => ctx.snap_b,
            _ => ctx.snap_a,
        };
        match d.extra {
            Extra::IfNoneMatchSnapshotVersion => headers.push(("If-None-Match".into(), format!("\"{snap}\"").into_bytes())),
            Extra::IfNoneMatchWeakList => headers.push(("If-None-Match".into(), format!("\"other\", W/\"{snap}\"").into_bytes())),
            Extra::IfMatchSnapshotVersion => headers.push(("If-Match".into(), format!("\"{snap}\"").into_bytes())),
            Extra::IfNoneMatchLatest => headers.push(("If-None-Match".into(), format!("\"{latest}\"").into_bytes())),
            _ => {}
        }
    }
    let body = match d.body {
        BodyForm::None => Body::Empty,
        BodyForm::EmptyChunks => Body::Chunks(vec![vec![], vec![]]),
        BodyForm::One => Body::Chunks(vec![b"x".to_vec()]),
        BodyForm::Multi => Body::Chunks(vec![b"ab".to_vec(), b"c".to_vec(), b"defg".to_vec()]),
        BodyForm::MultiWithEmpty => Body::Chunks(vec![vec![], b"ab".to_vec(), vec![], b"c".to_vec(), vec![]]),
        BodyForm::ThenError => Body::ThenError(vec![b"abc".to_vec()]),
        BodyForm::LimitMinus1 => Body::Lazy { total: MAX_SIZE - 1, chunk: 1 << 20 },
        BodyForm::Limit => Body::Lazy { total: MAX_SIZE, chunk: 1 << 20 },
        BodyForm::LimitPlus1 => Body::Lazy { total: MAX_SIZE + 1, chunk: 1 << 20 },
        BodyForm::LimitCrossedLate => Body::Lazy { total: MAX_SIZE + 1, chunk: MAX_SIZE / 2 - 7 },
        BodyForm::OneChunkOverLimit => Body::Lazy { total: MAX_SIZE + 1, chunk: MAX_SIZE + 1 },
    };
    HttpReq {
        method: d.method.to_string(),
        uri,
        headers,
        body,
    }
}

pub struct GrammarParams {
    pub spec: SutSpec,
    /// None = no allow-list; Some(set of symbolic clients)
    pub allow: Option<Vec<Cid>>,
    pub big_bodies: bool,
    pub full_methods: bool,
    pub seed: u64,
    pub monitors: Vec<&'static str>,
}

#[derive(Default)]
pub struct GrammarStats {
    pub requests: u64,
    pub wellformed: u64,
    pub malformed: u64,
    pub ambiguous: u64,
    pub unlisted: u64,
    pub statuses: BTreeMap<u16, u64>,
    pub mutating: u64,
    pub restores: u64,
    pub skipped_unbuildable: u64,
}

pub struct GFinding {
    pub monitor: &'static str,
    pub class: String,
    pub msg: String,
    pub dim: String,
}

/// The history that builds the live state (two clients with data, snapshot, non-nil base for B).
pub fn state_history() -> Vec<SymOp> {
    vec![
        SymOp::AddVersion { c: 0, parent: NIL, data: b"a1".to_vec() },
        SymOp::AddVersion { c: 0, parent: 1, data: b"a2".to_vec() },
        SymOp::AddSnapshot { c: 0, v: 2, data: b"snapA".to_vec() },
        SymOp::AddVersion { c: 0, parent: 2, data: b"a3".to_vec() },
        SymOp::AddVersion { c: 1, parent: 900, data: b"b1".to_vec() },
        SymOp::AddSnapshot { c: 1, v: 4, data: b"snapB".to_vec() },
    ]
}

struct Live {
    s: SymSut,
    counter: Arc<Counter>,
    files: Option<crate::sut::DirImage>,
    ctx: Ctx,
    dump: Dump,
}

fn build_live(p: &GrammarParams, empty: bool) -> Live {
    let counter = Arc::new(Counter::default());
    let allow: Option<HashSet<Uuid>> = p.allow.as_ref().map(|v| v.iter().map(|c| client_uuid(p.seed, *c)).collect());
    // the state is built without the allow-list ("data from before the list was introduced"),
    // through the same kind of implementation
    let mut s = SymSut::from_sut(Sut::with(p.spec, Config { days: 14, versions: 100 }, None, counter.clone()), p.seed, 2);
    let mut model = Model::new(Config { days: 14, versions: 100 });
    let mut latest: BTreeMap<Cid, Sid> = BTreeMap::new();
    if !empty {
        for op in state_history() {
            let new_sid = model.next_sid;
            let r = s.apply(&op, new_sid);
            if let SymOp::AddVersion { c, parent, data } = &op {
                let _ = model.add_version(*c, *parent, data, true);
                latest.insert(*c, new_sid);
            }
            assert!(!r.is_failure(), "building the live state failed: {:?}", r);
        }
    }
    // now put the allow-list in force: same storage, new front end
    s.sut.allow = allow;
    s.sut.reopen().expect("reopen with allow-list");
    let la = latest.get(&0).map(|x| s.tab.uuid(*x)).unwrap_or(Uuid::nil());
    let lb = latest.get(&1).map(|x| s.tab.uuid(*x)).unwrap_or(Uuid::nil());
    let ctx = Ctx {
        a: client_uuid(p.seed, 0),
        b: client_uuid(p.seed, 1),
        unseen: det_uuid(p.seed, 5, 1),
        latest_a: la,
        latest_b: lb,
        fresh: det_uuid(p.seed, 5, 2),
        snap_a: if empty { Uuid::nil() } else { s.tab.uuid(2) },
        snap_b: if empty { Uuid::nil() } else { s.tab.uuid(4) },
    };
    let files = if p.spec.is_sql() { Some(s.sut.save_files()) } else { None };
    let dump = full_dump(&s, &ctx);
    Live { s, counter, files, ctx, dump }
}

fn full_dump(s: &SymSut, ctx: &Ctx) -> Dump {
    let mut ids = s.tab.all_uuids();
    ids.push(ctx.fresh);
    let clients = vec![ctx.a, ctx.b, ctx.unseen];
    let mut d = crate::sut::dump_api(s.sut.storage(), &clients, &ids);
    if s.sut.spec.is_sql() {
        let raw = crate::sut::dump_sql_raw(s.sut.dir().unwrap());
        d.raw = raw.raw;
    }
    d
}

fn same(a: &Dump, b: &Dump) -> bool {
    a.clients == b.clients && a.versions == b.versions && a.raw == b.raw
}

fn cache_control_ok(raw: &RawHttp) -> bool {
    raw.headers.iter().any(|(k, v)| k == "cache-control" && String::from_utf8_lossy(v).to_ascii_lowercase().split(',').any(|t| t.trim() == "no-store"))
}

pub fn dims(p: &GrammarParams) -> Vec<Dim> {
    let routes = [Route::Index, Route::AddVersion, Route::GetChild, Route::AddSnapshot, Route::GetSnapshot, Route::UnknownLeaf, Route::UnknownVersion, Route::TrailingSlash, Route::WrongPrefix];
    let methods: Vec<&'static str> = if p.full_methods { vec!["GET", "POST", "PUT", "DELETE", "HEAD", "PATCH", "OPTIONS"] } else { vec!["GET", "POST", "PUT", "DELETE", "HEAD"] };
    let cids = [CidForm::Known, CidForm::KnownB, CidForm::Unseen, CidForm::Absent, CidForm::Empty, CidForm::Upper, CidForm::Simple, CidForm::Braced, CidForm::Urn, CidForm::Len35, CidForm::Len37, CidForm::NonHex, CidForm::NonAscii, CidForm::Duplicate, CidForm::DuplicateBFirst, CidForm::LeadingSpace];
    let pids = [PidForm::Latest, PidForm::Nil, PidForm::Fresh, PidForm::NotUuid, PidForm::Empty, PidForm::Overlong, PidForm::Braced, PidForm::Simple, PidForm::Upper];
    let cts = [CtForm::Right, CtForm::Wrong, CtForm::OtherEndpoints, CtForm::Absent, CtForm::WithParam, CtForm::UpperCase];
    let small = [BodyForm::None, BodyForm::EmptyChunks, BodyForm::One, BodyForm::Multi, BodyForm::MultiWithEmpty, BodyForm::ThenError];
    let mut out = vec![];
    for route in routes {
        for method in &methods {
            let cid_set: Vec<CidForm> = if route.is_protocol() { cids.to_vec() } else { vec![CidForm::Known, CidForm::Absent] };
            for cid in cid_set {
                let pid_set: Vec<PidForm> = if route.has_pid() { pids.to_vec() } else { vec![PidForm::Latest] };
                for pid in pid_set {
                    // content type and body matter for POST routes; elsewhere a reduced set
                    let (ct_set, body_set): (Vec<CtForm>, Vec<BodyForm>) = if route.is_post() || *method == "POST" || *method == "PUT" {
                        (cts.to_vec(), small.to_vec())
                    } else {
                        (vec![CtForm::Absent, CtForm::Right], vec![BodyForm::None, BodyForm::One])
                    };
                    for ct in &ct_set {
                        for body in &body_set {
                            out.push(Dim { route, method, cid, pid, ct: *ct, body: *body, extra: Extra::None });
                        }
                    }
                }
            }
        }
    }
    if p.big_bodies {
        for route in [Route::AddVersion, Route::AddSnapshot] {
            for body in [BodyForm::LimitMinus1, BodyForm::Limit, BodyForm::LimitPlus1, BodyForm::LimitCrossedLate, BodyForm::OneChunkOverLimit] {
                out.push(Dim { route, method: "POST", cid: CidForm::Known, pid: PidForm::Latest, ct: CtForm::Right, body, extra: Extra::None });
            }
        }
    }
    // the further-header dimension on a reduced product: every route x its own method and one
    // foreign method x {known, absent, unseen, malformed id} x right content type and one body
    for route in routes {
        for method in [route.method(), if route.method() == "GET" { "POST" } else { "GET" }] {
            for cid in [CidForm::Known, CidForm::KnownB, CidForm::Absent, CidForm::Unseen, CidForm::NonHex] {
                for extra in Extra::all() {
                    out.push(Dim { route, method, cid, pid: PidForm::Latest, ct: CtForm::Right, body: if method == "POST" { BodyForm::Multi } else { BodyForm::None }, extra });
                }
            }
        }
    }
    out
}

/// Run the grammar product `ds` (a slice of the whole, for parallel fan-out) on one server.
pub fn run_grammar(p: &GrammarParams, ds: &[Dim], empty_state: bool) -> (GrammarStats, Vec<GFinding>, Vec<Value>) {
    let mut live = build_live(p, empty_state);
    let mut st = GrammarStats::default();
    let mut findings: Vec<GFinding> = vec![];
    let mut samples = vec![];
    let mon = |m: &str| p.monitors.iter().any(|x| *x == m);
    let listed = |c: CidForm| -> Option<bool> {
        // Some(true) = on the list, Some(false) = well-formed but not on the list, None = n/a
        let al = p.allow.as_ref()?;
        match c {
            CidForm::Known | CidForm::Upper | CidForm::Simple | CidForm::Braced | CidForm::Urn => Some(al.contains(&0)),
            // two headers: which one the server acts for is its business (no status is demanded);
            // what is demanded is that no storage transaction is opened for an unlisted id (below)
            CidForm::Duplicate | CidForm::DuplicateBFirst => None,
            CidForm::KnownB => Some(al.contains(&1)),
            CidForm::Unseen => Some(false),
            _ => None,
        }
    };
    for d in ds {
        let req = build(d, &live.ctx);
        let class = classify(d);
        live.counter.txns.store(0, Ordering::SeqCst);
        live.counter.writes.store(0, Ordering::SeqCst);
        live.counter.calls.store(0, Ordering::SeqCst);
        live.counter.clients.lock().unwrap().clear();
        let resp = live.s.sut.send_http(&req);
        let txns = live.counter.txns.load(Ordering::SeqCst);
        let writes = live.counter.writes.load(Ordering::SeqCst);
        let dimstr = format!("{:?} => {}", d, req.describe());
        let raw = match resp {
            Ok(r) => r,
            Err(e) if e.starts_with("PANIC") => {
                st.requests += 1;
                findings.push(GFinding { monitor: "C15", class: "panic".into(), msg: format!("the server panicked: {e}"), dim: dimstr });
                let (l2, _) = (build_live(p, empty_state), ());
                live = l2;
                continue;
            }
            Err(_) => {
                // not expressible as a syntactically valid request for the in-process service
                st.skipped_unbuildable += 1;
                continue;
            }
        };
        st.requests += 1;
        *st.statuses.entry(raw.status).or_insert(0) += 1;
        if samples.len() < 3 && st.requests % 997 == 1 {
            samples.push(json!({"request": req.describe(), "class": format!("{class:?}"), "status": raw.status}));
        }
        // state change? no write call => storage untouched by construction (all access goes through
        // the instrumented Storage); otherwise compare complete dumps
        let changed = if writes == 0 {
            false
        } else {
            let after = full_dump(&live.s, &live.ctx);
            !same(&after, &live.dump)
        };
        if writes > 0 {
            st.mutating += 1;
        }
        // ---- C20
        if mon("C20") && !cache_control_ok(&raw) {
            findings.push(GFinding { monitor: "C20", class: format!("no-cache-control:{}", raw.status), msg: format!("response {} carries no Cache-Control: no-store", raw.brief()), dim: dimstr.clone() });
        }
        // ---- C15
        if mon("C15") {
            if raw.status >= 500 {
                findings.push(GFinding { monitor: "C15", class: "5xx".into(), msg: format!("server error {} {}", raw.status, String::from_utf8_lossy(&raw.body)), dim: dimstr.clone() });
            }
            match &class {
                Class::Malformed(why) => {
                    st.malformed += 1;
                    if !(400..500).contains(&raw.status) {
                        findings.push(GFinding { monitor: "C15", class: format!("malformed-not-4xx:{}", why[0]), msg: format!("request is malformed ({}) but was answered {}", why.join(", "), raw.status), dim: dimstr.clone() });
                    }
                    if changed {
                        findings.push(GFinding { monitor: "C15", class: format!("malformed-changed-state:{}", why[0]), msg: format!("request is malformed ({}) and was answered {}, yet stored state changed", why.join(", "), raw.status), dim: dimstr.clone() });
                    }
                }
                Class::Ambiguous(_) => {
                    st.ambiguous += 1;
                    if (400..500).contains(&raw.status) && changed && !d.route.allowed_statuses().contains(&raw.status) {
                        findings.push(GFinding { monitor: "C15", class: "refused-but-changed-state".into(), msg: format!("request was refused with {} yet stored state changed", raw.status), dim: dimstr.clone() });
                    }
                }
                Class::WellFormed => {
                    st.wellformed += 1;
                    let ok_unlisted = listed(d.cid) == Some(false) && raw.status == 403;
                    if !d.route.allowed_statuses().contains(&raw.status) && !ok_unlisted {
                        findings.push(GFinding { monitor: "C15", class: format!("wellformed-refused:{}", raw.status), msg: format!("well-formed request answered {} (allowed: {:?})", raw.status, d.route.allowed_statuses()), dim: dimstr.clone() });
                    }
                    if matches!(d.body, BodyForm::Limit | BodyForm::LimitMinus1) && raw.status != 200 && !ok_unlisted {
                        findings.push(GFinding { monitor: "C15", class: "limit-not-accepted".into(), msg: format!("a body of {:?} bytes must be accepted, answered {}", d.body, raw.status), dim: dimstr.clone() });
                    }
                }
            }
        }
        // ---- C16, whatever the shape of the request: under an allow-list no storage transaction
        //      is ever opened for a client id that is not on it
        if mon("C16") {
            if let Some(al) = &p.allow {
                let allowed: Vec<Uuid> = al.iter().map(|c| client_uuid(p.seed, *c)).collect();
                let touched: Vec<Uuid> = live.counter.clients.lock().unwrap().clone();
                if let Some(u) = touched.iter().find(|u| !allowed.contains(u)) {
                    findings.push(GFinding { monitor: "C16", class: format!("storage-opened-for-unlisted-client:{:?}", d.route), msg: format!("a storage transaction was opened for client {u}, which is not on the allow-list (answer {})", raw.status), dim: dimstr.clone() });
                }
            }
        }
        // ---- C16
        if mon("C16") && d.route.is_protocol() {
            match (listed(d.cid), &p.allow) {
                (Some(false), Some(_)) => {
                    st.unlisted += 1;
                    let otherwise_ok = {
                        let mut d2 = d.clone();
                        d2.cid = CidForm::Known;
                        classify(&d2)
                    };
                    match otherwise_ok {
                        Class::WellFormed => {
                            if raw.status != 403 {
                                findings.push(GFinding { monitor: "C16", class: format!("unlisted-not-403:{:?}", d.route), msg: format!("client id not on the allow-list, request otherwise well-formed, answered {} instead of 403", raw.status), dim: dimstr.clone() });
                            }
                        }
                        _ => {
                            if !(400..500).contains(&raw.status) {
                                findings.push(GFinding { monitor: "C16", class: format!("unlisted-not-4xx:{:?}", d.route), msg: format!("client id not on the allow-list, answered {}", raw.status), dim: dimstr.clone() });
                            }
                        }
                    }
                    if txns != 0 {
                        findings.push(GFinding { monitor: "C16", class: format!("unlisted-touched-storage:{:?}", d.route), msg: format!("client id not on the allow-list, yet storage was accessed ({txns} transactions, {writes} writing calls), answer {}", raw.status), dim: dimstr.clone() });
                    }
                    if changed {
                        findings.push(GFinding { monitor: "C16", class: format!("unlisted-changed-state:{:?}", d.route), msg: "client id not on the allow-list, yet stored state changed".into(), dim: dimstr.clone() });
                    }
                }
                (None, Some(_)) => {
                    // malformed / absent id under an allow-list: refused, storage untouched
                    if matches!(d.cid, CidForm::Absent | CidForm::Empty | CidForm::Len35 | CidForm::Len37 | CidForm::NonHex | CidForm::NonAscii) && d.method == d.route.method() {
                        if !(400..500).contains(&raw.status) || txns != 0 {
                            findings.push(GFinding { monitor: "C16", class: format!("malformed-id-under-list:{:?}", d.route), msg: format!("malformed client id under an allow-list: answered {}, {txns} storage transactions", raw.status), dim: dimstr.clone() });
                        }
                    }
                }
                (_, None) | (Some(true), _) => {
                    // no list (every well-formed id is served) or listed: a canonical request must not be 403
                    if raw.status == 403 && matches!(d.cid, CidForm::Known | CidForm::KnownB | CidForm::Unseen) && (p.allow.is_none() || listed(d.cid) == Some(true)) {
                        findings.push(GFinding { monitor: "C16", class: format!("served-client-refused:{:?}", d.route), msg: "a client that must be served was answered 403".into(), dim: dimstr.clone() });
                    }
                }
            }
        }
        // keep the live state stable
        if changed || writes > 0 {
            st.restores += 1;
            if let Some(f) = &live.files {
                live.s.sut.restore_files(f);
                // (ids unchanged)
            } else {
                live = build_live(p, empty_state);
            }
        }
    }
    (st, findings, samples)
}

// ---------------------------------------------------------------------------------------------
// fan-out

fn spec_from_name(n: &str) -> SutSpec {
    crate::sut::spec_from_name(n).expect("spec name")
}

fn static_mon(s: &str) -> &'static str {
    match s {
        "C15" => "C15",
        "C16" => "C16",
        "C20" => "C20",
        _ => "OTHER",
    }
}

/// Worker: task = {spec, allow, empty, big, full_methods, part, parts}
pub fn worker_main() {
    crate::pool::serve(|pv| {
        let seed = pv["seed"].as_u64().unwrap_or(1);
        let monitors: Vec<&'static str> = pv["monitors"].as_array().map(|a| a.iter().map(|x| static_mon(x.as_str().unwrap_or(""))).collect()).unwrap_or_default();
        move |task: &Value| -> Value {
            let p = GrammarParams {
                spec: spec_from_name(task["spec"].as_str().unwrap()),
                allow: task["allow"].as_array().map(|a| a.iter().map(|x| x.as_u64().unwrap() as Cid).collect()),
                big_bodies: task["big"].as_bool().unwrap_or(false),
                full_methods: task["full_methods"].as_bool().unwrap_or(false),
                seed,
                monitors: monitors.clone(),
            };
            let all = dims(&p);
            let part = task["part"].as_u64().unwrap() as usize;
            let parts = task["parts"].as_u64().unwrap() as usize;
            // the ordinary product is dealt out over the workers; the limit-sized and over-limit
            // bodies all go to one process, twice, followed by ordinary uploads - whatever a
            // refused upload leaves behind in the process (a budget, a buffer) adds up there
            let (big, small): (Vec<Dim>, Vec<Dim>) = all.iter().cloned().partition(|d| d.body.is_big());
            let mut mine: Vec<Dim> = small.iter().enumerate().filter(|(k, _)| k % parts == part).map(|(_, d)| d.clone()).collect();
            if part == 0 && !big.is_empty() {
                mine.extend(big.iter().cloned());
                mine.extend(big.iter().cloned());
                for route in [Route::AddVersion, Route::AddSnapshot] {
                    for body in [BodyForm::One, BodyForm::Multi] {
                        mine.push(Dim { route, method: "POST", cid: CidForm::Known, pid: PidForm::Latest, ct: CtForm::Right, body, extra: Extra::None });
                    }
                }
            }
            let r = std::panic::catch_unwind(std::panic::AssertUnwindSafe(|| run_grammar(&p, &mine, task["empty"].as_bool().unwrap_or(false))));
            match r {
                Ok((st, f, samples)) => json!({
                    "requests": st.requests, "wellformed": st.wellformed, "malformed": st.malformed, "ambiguous": st.ambiguous,
                    "unlisted": st.unlisted, "mutating": st.mutating, "restores": st.restores, "unbuildable": st.skipped_unbuildable,
                    "statuses": st.statuses.iter().map(|(k, v)| (k.to_string(), *v)).collect::<BTreeMap<String, u64>>(),
                    "grammar_size": all.len(),
                    "samples": samples,
                    "findings": f.iter().map(|x| json!({"monitor": x.monitor, "class": x.class, "msg": x.msg, "dim": x.dim})).collect::<Vec<_>>(),
                }),
                Err(e) => json!({"error": format!("grammar run panicked: {}", crate::sut::panic_msg(e))}),
            }
        }
    });
}
