//! Per-property check definitions: which engine, which bounds per tier, how findings become
//! violations and what goes into the evidence file.

use crate::alphabet::{AOp, Alphabet};
use crate::eseq::{self, Finding, SeqParams, SeqResult};
use crate::model::Config;
use crate::report::{seed, Report, Violation};
use crate::sut::{MEM_HTTP, MEM_LIB, SQL_HTTP, SQL_HTTP_ALLOW_REOPEN, SQL_HTTP_REOPEN, SQL_LIB, SQL_LIB_REOPEN};
use serde_json::{json, Value};

pub fn threads() -> usize {
    std::env::var("TCSS_THREADS")
        .ok()
        .and_then(|s| s.parse().ok())
        .unwrap_or_else(|| {
            std::thread::available_parallelism()
                .map(|n| n.get())
                .unwrap_or(4)
                .min(16)
        })
}

pub fn main(args: &[String]) -> i32 {
    if args.is_empty() {
        eprintln!("usage: tcss-verif check <ID> <quick|thorough> [--replay <file>]");
        return 2;
    }
    match args[0].as_str() {
        "check" => {
            let id = args.get(1).cloned().unwrap_or_default();
            let mut tier = std::env::var("VERIF_TIER").unwrap_or_else(|_| "quick".into());
            let mut replay: Option<String> = None;
            let mut k = 2;
            while k < args.len() {
                match args[k].as_str() {
                    "quick" | "thorough" => tier = args[k].clone(),
                    "--replay" => {
                        replay = args.get(k + 1).cloned();
                        k += 1;
                    }
                    other => {
                        eprintln!("unknown argument {other}");
                        return 2;
                    }
                }
                k += 1;
            }
            run_check(&id, &tier, replay.as_deref())
        }
        "gen-corpus-extra" => {
            // adds the hand-scripted legacy directories to an existing corpus
            let out = args.get(1).map(std::path::PathBuf::from).unwrap_or_else(crate::ecorpus::corpus_dir);
            match crate::ecorpus::generate_legacy_fork(&out).and_then(|_| crate::ecorpus::generate_long_history(&out)).and_then(|_| crate::ecorpus::generate_encoded_payloads(&out)) {
                Ok(()) => 0,
                Err(e) => {
                    eprintln!("gen-corpus-extra failed: {e}");
                    2
                }
            }
        }
        "gen-corpus" => {
            let out = args.get(1).map(std::path::PathBuf::from).unwrap_or_else(crate::ecorpus::corpus_dir);
            match crate::ecorpus::generate(&out).and_then(|_| crate::ecorpus::generate_legacy_fork(&out)).and_then(|_| crate::ecorpus::generate_long_history(&out)).and_then(|_| crate::ecorpus::generate_encoded_payloads(&out)) {
                Ok(()) => 0,
                Err(e) => {
                    eprintln!("gen-corpus failed: {e}");
                    2
                }
            }
        }
        "worker" => {
            match args.get(1).map(|s| s.as_str()) {
                Some("seq") => eseq::worker_main(),
                Some("sweep") => crate::esweep::worker_main(),
                Some("http") => crate::ehttp::worker_main(),
                Some("payload") => crate::epayload::worker_main(),
                Some("crash") => crate::ecrash::worker_main(),
                Some("fault") => crate::efault::worker_main(),
                Some("sched") => crate::esched::worker_main(),
                Some("sched-agent") => crate::esched::agent_main(),
                Some("bin") => crate::ebin::worker_main(),
                Some("corpus") => crate::ecorpus::worker_main(),
                Some("size") => crate::esize::worker_main(),
                other => eprintln!("unknown worker kind {other:?}"),
            }
            0
        }
        other => {
            eprintln!("unknown command {other}");
            2
        }
    }
}

fn run_check(id: &str, tier: &str, replay: Option<&str>) -> i32 {
    match id {
        "C01" | "C02" | "C07" | "C08" | "C09" | "C10" | "C11" | "C13" | "C14" | "C18" => {
            seq_check(id, tier, replay)
        }
        "C12" => c12_check(tier, replay),
        "C15" | "C16" | "C20" => http_check(id, tier, replay),
        "C06" => c06_check(tier, replay),
        "C04" => c04_check(tier, replay),
        "C05" => c05_check(tier, replay),
        "C03" => c03_check(tier, replay),
        "C17" => c17_check(tier, replay),
        "C19" => c19_check(tier, replay),
        _ => {
            eprintln!("no check for property {id}");
            2
        }
    }
}

// ---------------------------------------------------------------------------------------------
// C12: threshold sweep + E-SEQ

fn sweep_signature(f: &Value) -> String {
    let d = f["config"][0].as_i64().unwrap_or(0);
    let v = f["config"][1].as_u64().unwrap_or(0);
    let zone = if d > i64::MAX / 3 && v > (u32::MAX / 3) as u64 {
        "both-targets-above-a-third-of-their-type"
    } else if d > i64::MAX / 3 {
        "days-target-above-a-third-of-i64"
    } else if v > (u32::MAX / 3) as u64 {
        "versions-target-above-a-third-of-u32"
    } else {
        "targets-in-range"
    };
    format!("sweep|{}|{}|{}", f["class"].as_str().unwrap_or(""), f["backend"].as_str().unwrap_or(""), zone)
}

fn c12_check(tier: &str, replay: Option<&str>) -> i32 {
    let quick = tier != "thorough";
    let mut rep = Report::new("C12", tier, "model_checking");
    if let Some(file) = replay {
        // sweep replays carry one configuration; E-SEQ replays carry a history
        let s = std::fs::read_to_string(file).unwrap_or_default();
        let v: Value = serde_json::from_str(&s).unwrap_or(Value::Null);
        if v["replay"]["engine"] == "sweep" {
            let mut pool = crate::pool::Pool::spawn(1, "sweep", &json!({"seed": seed()}));
            let r = pool.map(&[json!({"days": v["replay"]["config"][0], "versions": v["replay"]["config"][1]})]);
            let mut n = 0;
            if let Some(Ok(res)) = r.first() {
                for f in res["findings"].as_array().cloned().unwrap_or_default() {
                    if sweep_signature(&f) == v["signature"].as_str().unwrap_or("") {
                        println!("VIOLATION property=C12 replay={file}");
                        println!("  {}", f["msg"].as_str().unwrap_or(""));
                        n += 1;
                        break;
                    }
                }
            }
            return if n > 0 { 1 } else { println!("replay of {file}: no violation of C12"); 0 };
        }
        return seq_replay("C12", tier, file, &c12_seq_runs(tier));
    }
    // (a) sweep
    let dts = crate::esweep::day_targets(quick);
    let vts = crate::esweep::version_targets(quick);
    let mut tasks = vec![];
    for d in &dts {
        for v in &vts {
            tasks.push(json!({"days": d, "versions": v}));
        }
    }
    let mut pool = crate::pool::Pool::spawn(threads(), "sweep", &json!({"seed": seed()}));
    let results = pool.map(&tasks);
    drop(pool);
    let mut cases = 0u64;
    let mut outcomes = std::collections::BTreeSet::new();
    let mut disagreements = 0u64;
    let mut sweep_samples = vec![];
    for (k, r) in results.iter().enumerate() {
        match r {
            Ok(res) => {
                cases += res["cases"].as_u64().unwrap_or(0);
                disagreements += res["backend_disagreements"].as_u64().unwrap_or(0);
                for o in res["outcomes"].as_array().cloned().unwrap_or_default() {
                    outcomes.insert(o.as_str().unwrap_or("").to_string());
                }
                if sweep_samples.len() < 4 {
                    sweep_samples.push(json!({"config": tasks[k], "cases": res["sample"]}));
                }
                for f in res["findings"].as_array().cloned().unwrap_or_default() {
                    rep.violations.push(Violation {
                        property: "C12".into(),
                        signature: sweep_signature(&f),
                        message: format!("[sweep/{}] {}", f["backend"].as_str().unwrap_or(""), f["msg"].as_str().unwrap_or("")),
                        replay: json!({"engine": "sweep", "config": f["config"], "days": f["days"], "since": f["since"], "backend": f["backend"]}),
                    });
                }
            }
            Err(e) => rep.machinery_errors.push(format!("sweep worker: {e}")),
        }
    }
    rep.cov("sweep_configurations", json!(tasks.len()));
    rep.cov("sweep_cases", json!(cases));
    rep.cov("sweep_day_targets", json!(dts));
    rep.cov("sweep_version_targets", json!(vts));
    rep.cov("sweep_outcomes", json!(outcomes.into_iter().collect::<Vec<_>>()));
    rep.cov("sweep_backend_disagreements", json!(disagreements));
    // (b) histories
    let runs = c12_seq_runs(tier);
    let mut runs_json = vec![];
    let mut exhaustive = true;
    let mut samples: Vec<Value> = sweep_samples;
    for (name, p) in &runs {
        let r = eseq::run(p);
        exhaustive &= r.exhaustive;
        for s in r.samples.iter().take(4) {
            samples.push(s.clone());
        }
        absorb_seq(&mut rep, "C12", name, p, &r, &mut runs_json);
    }
    rep.cov("runs", json!(runs_json));
    rep.cov("samples", json!(samples));
    rep.cov("exhaustive", json!(exhaustive));
    // (c) counts produced by long real histories under the default targets (E-LONG)
    size_part(&mut rep, "C12", tier);
    rep.assume("urgency rounding: floor(3t/2) is the anchored high threshold; at that single point of an odd target both low and high are accepted");
    rep.assume("snapshot ages are installed by rewriting the stored timestamp through StorageTxn::set_snapshot (time passing); the counter is swept to u32::MAX-1");
    rep.finish()
}

fn c12_seq_runs(tier: &str) -> Vec<(String, SeqParams)> {
    let quick = tier != "thorough";
    let mk = |name: &str, cfg: Config, ages: &[i64], depth: usize| {
        (
            name.to_string(),
            SeqParams {
                alphabet: alpha(1, 2, false, false, true, ages),
                cfg,
                specs: vec![MEM_LIB, SQL_LIB, SQL_LIB_REOPEN, MEM_HTTP],
                max_depth: depth,
                unmerged_depth: 1,
                monitors: vec!["C12"],
                reopen_probe: false,
                solo_runs: false,
                max_states: if quick { 6000 } else { 400_000 },
                wall_cap_s: if quick { 40.0 } else { 1500.0 },
                threads: threads(),
                seed: seed(),
                reopen_subsets_up_to: 0,
            },
        )
    };
    let mut two = mk("two clients, targets (2 days, 2 versions): each client's counter counts its own versions", Config { days: 2, versions: 2 }, &[], if quick { D2Q } else { D2T });
    two.1.alphabet = alpha(2, 1, false, false, true, &[]);
    two.1.specs = vec![MEM_LIB, SQL_LIB, SQL_HTTP];
    let mut zero = mk("one client, targets (0 days, 0 versions)", Config { days: 0, versions: 0 }, &[1], 4);
    zero.1.specs = vec![MEM_LIB, SQL_LIB, MEM_HTTP, SQL_HTTP];
    let mut v = vec![
        two,
        zero,
        mk("one client, targets (2 days, 2 versions), snapshot ageing 1..3 days", Config { days: 2, versions: 2 }, &[1, 2, 3], if quick { D1Q } else { D1T }),
        mk("one client, targets (3 days, 3 versions): odd targets", Config { days: 3, versions: 3 }, &[2, 3, 4, 5], if quick { D1Q } else { D1T }),
    ];
    if !quick {
        for (d, vv) in [(0, 0), (1, 1), (0, 3), (3, 0), (1, 2), (2, 1)] {
            v.push(mk(&format!("one client, targets ({d} days, {vv} versions)"), Config { days: d, versions: vv }, &[1, 2, 3, 4, 5], 8));
        }
    }
    v
}

// ---------------------------------------------------------------------------------------------
// E-SEQ based checks

/// Depth bounds: two(+)-client runs and one-client deep runs, quick / thorough.
const D2Q: usize = 5;
const D2T: usize = 6;
const D1Q: usize = 8;
const D1T: usize = 12;

fn alpha(n_clients: u8, anc_max: u8, foreign: bool, dup: bool, snapshots: bool, ages: &[i64]) -> Alphabet {
    Alphabet {
        n_clients,
        anc_max,
        foreign,
        dup_payload: dup,
        snapshots,
        ages: ages.to_vec(),
        big_payload: false,
        huge_payload: false,
        id_family: 0,
    }
}

/// One limit-sized payload (version or snapshot) anywhere in a short history of one client:
/// whatever size threshold a backend or a handler may have below the limit is crossed.
#[allow(dead_code)]
fn huge_run(quick: bool, specs: Vec<crate::sut::SutSpec>) -> (String, SeqParams) {
    let mut a = alpha(1, 2, false, false, true, &[]);
    a.huge_payload = true;
    (
        "one client, one payload of exactly the 100 MiB limit anywhere in the history".to_string(),
        SeqParams {
            alphabet: a,
            cfg: Config { days: 2, versions: 2 },
            specs,
            max_depth: if quick { 3 } else { 4 },
            unmerged_depth: 1,
            monitors: vec![],
            reopen_probe: false,
            solo_runs: false,
            max_states: 6000,
            wall_cap_s: if quick { 60.0 } else { 1500.0 },
            threads: threads().min(4),
            seed: seed(),
            reopen_subsets_up_to: 0,
        },
    )
}

/// The exploration runs that decide `id` at `tier`.
pub fn seq_runs(id: &str, tier: &str) -> Vec<(String, SeqParams)> {
    let quick = tier != "thorough";
    let base = |name: &str, alphabet: Alphabet, specs: Vec<crate::sut::SutSpec>, depth: usize, d0: usize| {
        (
            name.to_string(),
            SeqParams {
                alphabet,
                cfg: Config { days: 2, versions: 2 },
                specs,
                max_depth: depth,
                unmerged_depth: d0,
                monitors: vec![],
                reopen_probe: false,
                solo_runs: false,
                max_states: if quick { 6000 } else { 400_000 },
                wall_cap_s: if quick { 40.0 } else { 1500.0 },
                threads: threads(),
                seed: seed(),
                reopen_subsets_up_to: 0,
            },
        )
    };
    let all5 = vec![MEM_LIB, SQL_LIB, SQL_LIB_REOPEN, MEM_HTTP, SQL_HTTP];
    let lib2 = vec![MEM_LIB, SQL_LIB];
    let four = vec![MEM_LIB, SQL_LIB, MEM_HTTP, SQL_HTTP];
    let mut runs: Vec<(String, SeqParams)> = match id {
        "C01" => {
            let mut v = vec![
                base("two clients, all id classes, five implementations", alpha(2, 2, true, false, true, &[]), all5.clone(), if quick { D2Q } else { D2T }, if quick { 1 } else { 2 }),
                base("one client, deep chain", alpha(1, 7, false, false, true, &[]), all5.clone(), if quick { D1Q } else { D1T }, 1),
            ];
            for r in v.iter_mut() {
                r.1.reopen_probe = true;
            }
            v
        }
        "C02" => vec![
            base("two clients, all parent classes, library and HTTP on both backends", alpha(2, 3, true, true, true, &[]), four.clone(), if quick { D2Q } else { D2T }, if quick { 1 } else { 2 }),
            base("one client, deep chain", alpha(1, 7, false, true, true, &[]), four.clone(), if quick { D1Q } else { D1T }, 1),
            // a server restarted between any two requests, with and without an allow-list naming
            // the client: whatever start-up does, the comparison is with the stored latest version
            base("two clients, HTTP front end rebuilt before every request (with / without allow-list)", alpha(2, 2, true, false, true, &[]), vec![SQL_LIB, SQL_HTTP_REOPEN, SQL_HTTP_ALLOW_REOPEN], if quick { 4 } else { 5 }, 1),
        ],
        "C07" => {
            let mut v = vec![
                base("two clients", alpha(2, 2, true, true, true, &[]), vec![MEM_LIB, SQL_LIB, SQL_LIB_REOPEN, MEM_HTTP], if quick { D2Q } else { D2T }, if quick { 1 } else { 2 }),
                base("one client, deep chain", alpha(1, 3, false, true, true, &[]), vec![MEM_LIB, SQL_LIB, SQL_LIB_REOPEN, SQL_HTTP], if quick { D1Q } else { D1T }, 1),
            ];
            for r in v.iter_mut() {
                r.1.reopen_probe = true;
            }
            v
        }
        "C08" => vec![
            base("two clients, every class of p", alpha(2, 3, true, false, true, &[]), four.clone(), if quick { D2Q } else { D2T }, if quick { 1 } else { 2 }),
            base("one client, deep chain", alpha(1, 7, false, false, true, &[]), lib2.clone(), if quick { D1Q } else { D1T }, 1),
        ],
        "C09" => {
            let mut v = vec![base("two clients quoting each other's ids", alpha(2, 1, true, true, true, &[]), lib2.clone(), if quick { D2Q } else { D2T }, if quick { 1 } else { 2 })];
            if !quick {
                v.push(base("three clients", alpha(3, 1, true, false, true, &[]), lib2.clone(), 4, 1));
            }
            // ids are values too: the same exploration with client ids that a lossy encoding
            // somewhere below could confuse (all-decimal neighbours, tiny ids, nil / all-ones /
            // one bit apart)
            for (fam, what) in [(1u8, "all-decimal client ids that differ in the last digit"), (2, "tiny client ids (…0001, …0002, …0003)"), (3, "client ids nil, all-ones and one bit apart"), (4, "first parents that are combinations (xor, sum, difference) of client ids")] {
                let mut a = alpha(3, 1, true, false, true, &[]);
                a.id_family = fam;
                v.push(base(&format!("three clients, {what}"), a, vec![MEM_LIB, SQL_LIB, SQL_HTTP], if quick { 3 } else { 4 }, 1));
            }
            for r in v.iter_mut() {
                r.1.solo_runs = true;
            }
            v
        }
        "C10" => vec![
            base("one client, deep chain, every snapshot position and every v", alpha(1, 7, false, false, true, &[1]), lib2.clone(), if quick { D1Q } else { D1T }, 1),
            base("two clients, foreign ids", alpha(2, 2, true, true, true, &[]), lib2.clone(), if quick { D2Q } else { D2T }, if quick { 1 } else { 2 }),
        ],
        "C11" => vec![
            base("one client, deep chain", alpha(1, 6, false, true, true, &[]), lib2.clone(), if quick { D1Q } else { D1T }, 1),
            base("two clients", alpha(2, 2, true, false, true, &[]), four.clone(), if quick { D2Q } else { D2T }, if quick { 1 } else { 2 }),
        ],
        "C13" => {
            let mut v = vec![
                base("two clients, lock step of in-memory, SQLite, SQLite reopened before every request", alpha(2, 2, true, true, true, &[1, 2]), vec![MEM_LIB, SQL_LIB, SQL_LIB_REOPEN], if quick { D2Q } else { D2T }, if quick { 2 } else { 3 }),
                base("one client, deep chain", alpha(1, 6, false, false, true, &[2]), vec![MEM_LIB, SQL_LIB, SQL_LIB_REOPEN], if quick { D1Q } else { D1T }, 1),
            ];
            for r in v.iter_mut() {
                r.1.reopen_probe = true;
            }
            v
        }
        "C14" => vec![
            base("two clients, HTTP and library twins on both backends, ageing snapshots", alpha(2, 2, true, false, true, &[2, 3]), four.clone(), if quick { D2Q } else { D2T }, if quick { 1 } else { 2 }),
            base("one client, deep chain", alpha(1, 5, false, false, true, &[2, 3]), four.clone(), if quick { D1Q } else { D1T }, 1),
            // the same bytes uploaded again (accepted once, then as a conflicting request): the
            // encoding of a conflict does not depend on what the body says
            base("one client, repeated payloads", alpha(1, 2, false, true, true, &[]), four.clone(), if quick { 5 } else { 7 }, 1),
            // servers with an allow-list naming the clients: the encoding of every outcome is the
            // same (the library twin knows no list)
            base("two clients, allow-listed HTTP servers and library twins", alpha(2, 1, true, false, true, &[]), vec![MEM_LIB, SQL_LIB, crate::sut::MEM_HTTP_ALLOW, crate::sut::SQL_HTTP_ALLOW], if quick { 4 } else { 5 }, 1),
        ],
        "C18" => {
            let mut v = vec![
                base("two clients, every non-mutating outcome", alpha(2, 3, true, false, true, &[1]), four.clone(), if quick { D2Q } else { D2T }, if quick { 1 } else { 2 }),
                base("one client, deep chain", alpha(1, 7, false, false, true, &[]), four.clone(), if quick { D1Q } else { D1T }, 1),
            ];
            // the other configurations an operator can give: each target zero ("always ask")
            for (d, vv) in [(0i64, 0u32), (0, 2), (2, 0)] {
                let mut r = base(&format!("one client, snapshot targets ({d} days, {vv} versions)"), alpha(1, 2, false, false, true, &[1]), four.clone(), if quick { 4 } else { 6 }, 1);
                r.1.cfg = Config { days: d, versions: vv };
                v.push(r);
            }
            v
        }
        _ => vec![],
    };
    let mons: Vec<&'static str> = match id {
        "C01" => vec!["C01"],
        "C02" => vec!["C02"],
        "C07" => vec!["C07"],
        "C08" => vec!["C08"],
        "C09" => vec!["C09"],
        "C10" => vec!["C10"],
        "C11" => vec!["C11"],
        "C13" => vec!["C13"],
        "C14" => vec!["C14"],
        "C18" => vec!["C18"],
        _ => vec![],
    };
    for r in runs.iter_mut() {
        r.1.monitors = mons.clone();
        // the repeated-payload alphabet doubles the branching: one level less in the quick tier
        // keeps the run exhaustive within its bound (no state cap hit)
        if quick && r.1.alphabet.dup_payload {
            r.1.max_depth -= 1;
        }
        if quick && id == "C13" && r.1.alphabet.n_clients > 1 {
            r.1.max_depth = 4;
        }
        if id == "C13" {
            r.1.reopen_subsets_up_to = if quick { 4 } else { 5 };
        }
        // C14: the encoding must not depend on the size of the payload either
        if id == "C14" {
            r.1.alphabet.big_payload = true;
        }
        // thorough: alphabets without the repeated payload branch half as much: two levels more
        if !quick && !r.1.alphabet.dup_payload {
            r.1.max_depth += 2;
        }
    }
    runs
}

pub fn params_json(p: &SeqParams) -> Value {
    json!({
        "clients": p.alphabet.n_clients,
        "anc_max": p.alphabet.anc_max,
        "foreign_ids": p.alphabet.foreign,
        "dup_payload": p.alphabet.dup_payload,
        "snapshots": p.alphabet.snapshots,
        "ages": p.alphabet.ages,
        "config": {"days": p.cfg.days, "versions": p.cfg.versions},
        "implementations": p.specs.iter().map(|s| s.name()).collect::<Vec<_>>(),
        "max_depth": p.max_depth,
        "unmerged_depth": p.unmerged_depth,
        "reopen_probe": p.reopen_probe,
        "solo_runs": p.solo_runs,
    })
}

pub fn finding_to_violation(id: &str, run: &str, f: &Finding) -> Violation {
    Violation {
        property: id.to_string(),
        signature: format!("eseq|{}|{}|{}", f.monitor, f.sut, f.class),
        message: format!(
            "[{}] {} ({}): {}\n history: {:?}\n operation: {}",
            f.monitor,
            f.sut,
            f.class,
            f.msg,
            f.history,
            f.op.clone().unwrap_or_else(|| "<state probe>".into())
        ),
        replay: json!({
            "engine": "eseq",
            "run": run,
            "history": f.history,
            "op": f.op,
            "sut": f.sut,
        }),
    }
}

pub fn absorb_seq(rep: &mut Report, id: &str, name: &str, p: &SeqParams, r: &SeqResult, runs_json: &mut Vec<Value>) {
    let mons = &p.monitors;
    for f in &r.findings {
        if f.monitor == "REPLAY" || f.monitor == "MACHINERY" || f.monitor == "ENV" {
            rep.machinery_errors.push(format!("{}: {} {}: {} (history {:?})", name, f.monitor, f.sut, f.msg, f.history));
        } else if mons.iter().any(|m| *m == f.monitor) {
            rep.violations.push(finding_to_violation(id, name, f));
        }
    }
    rep.add_count("states", r.stats.states);
    rep.add_count("transitions", r.stats.impl_transitions);
    rep.add_count("model_transitions", r.stats.transitions);
    rep.add_count("traces_validated_against_impl", r.stats.replays + r.stats.impl_transitions);
    rep.add_count("probe_requests", r.stats.probes);
    rep.add_count("merges", r.stats.merges);
    rep.add_count("solo_runs", r.stats.solo_runs);
    rep.add_count("collateral_deviations_pruned", r.stats.collateral);
    rep.add_count("http_responses_checked", r.stats.http_responses);
    rep.add_count("histories_rerun_with_reopen_subsets", r.stats.reopen_subsets);
    runs_json.push(json!({
        "run": name,
        "params": params_json(p),
        "states": r.stats.states,
        "impl_transitions": r.stats.impl_transitions,
        "model_transitions": r.stats.transitions,
        "merges": r.stats.merges,
        "level_sizes": r.level_sizes,
        "max_depth_completed": r.stats.max_depth_done,
        "exhaustive_within_bound": r.exhaustive,
        "cap": r.cap_note,
        "outcomes": r.stats.outcomes,
        "monitor_evaluations": r.stats.monitor_evals,
    }));
}

/// E-SIZE part of the history properties: implementation x size ladder x place of the sized
/// payload, complete product; findings are kept when tagged with `id`.
pub fn size_part(rep: &mut Report, id: &str, tier: &str) {
    let quick = tier != "thorough";
    // C12 is about counts, not sizes: the long histories only
    let sizes = if id == "C12" { vec![] } else { crate::esize::ladder(quick) };
    let specs = ["MemLib", "SqlLib", "SqlLibReopen", "MemHttp", "SqlHttp"];
    let mut tasks = vec![];
    // the two smallest payloads as well: one byte everywhere, none at all through the library
    // (the handlers refuse an empty body by design; the library and the backends take one)
    let mut sizes = sizes;
    if id != "C12" {
        sizes.insert(0, 1);
        sizes.insert(0, 0);
    }
    for &sz in sizes.iter().rev() {
        for sp in specs {
            if sz == 0 && sp.ends_with("Http") {
                continue;
            }
            for pl in 0..crate::esize::PLACES.len() {
                // quick tier: the limit-sized payload as first version of a new client and as
                // version + snapshot (the other two places are contained in the latter)
                if quick && sz == crate::alphabet::HUGE_BYTES && (pl == 1 || pl == 2) {
                    continue;
                }
                tasks.push(json!({"spec": sp, "size": sz, "place": pl}));
            }
        }
    }
    // E-LONG: one long history per implementation (counts instead of sizes)
    let long_n = if quick { 1100 } else { 4200 };
    let n_sized = tasks.len();
    for sp in specs {
        tasks.insert(0, json!({"spec": sp, "long": long_n}));
    }
    let mut pool = crate::pool::Pool::spawn(threads().min(8), "size", &json!({"seed": seed()}));
    let res = pool.map(&tasks);
    let (mut steps, mut failures, mut kept) = (0u64, 0u64, 0u64);
    for (t, r) in tasks.iter().zip(res.iter()) {
        match r {
            Ok(v) => {
                steps += v["steps"].as_u64().unwrap_or(0);
                failures += v["failures"].as_u64().unwrap_or(0);
                for f in v["findings"].as_array().cloned().unwrap_or_default() {
                    if f["tags"].as_array().map(|a| a.iter().any(|x| x == id)).unwrap_or(false) {
                        kept += 1;
                        rep.violations.push(Violation {
                            property: id.to_string(),
                            signature: format!("esize|{}|{}|{}|{}", f["class"].as_str().unwrap_or(""), f["impl"].as_str().unwrap_or(""), f["place"].as_str().unwrap_or(""), size_class(f["size"].as_u64().unwrap_or(0))),
                            message: f["msg"].as_str().unwrap_or("").to_string(),
                            replay: json!({"engine": "esize", "task": t, "class": f["class"], "impl": f["impl"]}),
                        });
                    }
                }
            }
            Err(e) => rep.machinery_errors.push(format!("E-SIZE task {t}: {e}")),
        }
    }
    rep.cov("size_ladder", json!({
        "rule": "one payload of each listed size at each place (first version of a new client / version on a chain / snapshot / both) in a scripted history that goes on afterwards (accepted and conflicting uploads, declined snapshot, reads, walk from the base, reopen + walk, stored content compared with the model), on every implementation; complete product",
        "sizes": sizes, "places": crate::esize::PLACES, "implementations": specs,
        "histories": n_sized, "long_histories": {"versions_of_client_A": long_n, "implementations": specs.len(), "rule": "one history of that many versions per implementation under the default targets (14 days, 100 versions): snapshots at versions 3 / 160 / 420 / 1030 / 2500 / 4100, a second client every 97 versions, six bystanders, reads + conflict + declined snapshot at every 2^k-1, 2^k and around 100, 150, 255, 1000, full walk and store comparison at 256 and at the end, again after reopening"},
        "requests_compared_with_model": steps, "failure_answers": failures, "findings_for_this_property": kept,
    }));
    rep.add_count("traces_validated_against_impl", tasks.len() as u64);
}

fn size_class(n: u64) -> String {
    if n <= 1 << 16 { "<=64KiB".into() } else if n <= 1 << 20 { "<=1MiB".into() } else if n <= 1 << 24 { "<=16MiB".into() } else { ">16MiB".into() }
}

fn size_replay(id: &str, file: &str, v: &Value) -> i32 {
    let t = &v["replay"]["task"];
    let res = if let Some(n) = t["long"].as_u64() {
        crate::esize::run_long(t["spec"].as_str().unwrap_or(""), n as usize, seed())
    } else {
        crate::esize::run_one(t["spec"].as_str().unwrap_or(""), t["size"].as_u64().unwrap_or(1) as usize, t["place"].as_u64().unwrap_or(0) as usize, seed())
    };
    for f in res["findings"].as_array().cloned().unwrap_or_default() {
        if f["class"] == v["replay"]["class"] && f["tags"].as_array().map(|a| a.iter().any(|x| x == id)).unwrap_or(false) {
            println!("VIOLATION property={id} replay={file}");
            println!("  {}", f["msg"].as_str().unwrap_or(""));
            return 1;
        }
    }
    println!("replay of {file}: no violation of {id}");
    0
}

/// C08 after a storage failure: the request that failed is followed, on the same server object,
/// by GetChild(latest) and AddVersion(latest) - the two halves of the equivalence must still
/// agree with each other and with what is stored (every single fault plan of the storage-trait
/// and SQL-statement layers, every request kind, four states, library and HTTP entry).
fn c08_fault_part(rep: &mut Report, tier: &str) {
    history_fault_part(rep, "C08", tier)
}

/// The history properties after (and during) a storage failure. Every single fault plan of the
/// storage-trait and SQL-statement layers (thorough: VFS too) of every request kind in two
/// states, library and HTTP entry; afterwards, on the same server object with faults off, the
/// latest version is read, appended to and read again. What is kept depends on the property:
/// C08 - the read / append pair disagrees afterwards, or a faulted GetChildVersion answers
/// something that is neither an error nor the truth; C01 / C07 - a part of a refused upload
/// stays behind, or the chain no longer reads back as acknowledged; C02 - a faulted AddVersion
/// answers neither an error nor the truth, leaves a part behind, or the next AddVersion on the
/// latest version is not accepted.
fn history_fault_part(rep: &mut Report, id: &str, tier: &str) {
    use crate::efault::FOp;
    let quick = tier != "thorough";
    let states = ["one-version", "chain+snapshot"];
    let mut tasks = vec![];
    for layer in if quick { vec!["trait", "sql"] } else { vec!["trait", "sql", "vfs"] } {
        for spec in ["SqlLib", "SqlHttp"] {
            for state in states {
                for op in FOp::all() {
                    if matches!(op, FOp::As50k | FOp::Av10k) && quick {
                        continue;
                    }
                    tasks.push(json!({"layer": layer, "spec": spec, "state": state, "op": op.name(), "double": false, "window": 0}));
                }
            }
        }
    }
    let mut pool = crate::pool::Pool::spawn(threads(), "fault", &json!({"seed": seed()}));
    let results = pool.map(&tasks);
    drop(pool);
    let (mut runs, mut kept) = (0u64, 0u64);
    for (k, r) in results.iter().enumerate() {
        match r {
            Ok(res) => {
                if let Some(e) = res["error"].as_str() {
                    rep.machinery_errors.push(format!("{}: {e}", tasks[k]));
                    continue;
                }
                runs += res["runs"].as_u64().unwrap_or(0);
                let op = tasks[k]["op"].as_str().unwrap_or("");
                for f in res["findings"].as_array().cloned().unwrap_or_default() {
                    let msg = f["msg"].as_str().unwrap_or("");
                    let class = f["class"].as_str().unwrap_or("");
                    let later = class == "later-request-not-served" && (msg.contains("AddVersion(") || msg.contains("GetChild("));
                    let keep = match id {
                        "C08" => later || (class == "wrong-answer" && op.starts_with("GetChildVersion")),
                        "C01" | "C07" => later || class == "partial-effect" || class == "acknowledged-with-partial-state",
                        "C02" => (class == "later-request-not-served" && msg.contains("AddVersion(")) || (op.starts_with("AddVersion") && matches!(class, "wrong-answer" | "partial-effect" | "acknowledged-with-partial-state" | "acknowledged-but-not-applied")),
                        _ => false,
                    };
                    if keep {
                        kept += 1;
                        rep.violations.push(Violation {
                            property: id.into(),
                            signature: format!("efault|{}|{}|{}|{}", tasks[k]["layer"].as_str().unwrap_or(""), tasks[k]["spec"].as_str().unwrap_or(""), op, if later { "after-failure" } else { class }),
                            message: format!("[{} layer, {}, state {}, failed request {}] {} — fault {}", tasks[k]["layer"].as_str().unwrap_or(""), tasks[k]["spec"].as_str().unwrap_or(""), tasks[k]["state"].as_str().unwrap_or(""), op, msg, f["fault"]),
                            replay: json!({"engine": "efault", "task": tasks[k], "fault": f["fault"]}),
                        });
                    }
                }
            }
            Err(e) => rep.machinery_errors.push(format!("fault worker: {e}")),
        }
    }
    rep.cov("after_storage_failure", json!({
        "rule": "every single fault plan (k-th storage-trait call fails before/after taking effect; one kind of SQL statement aborted; thorough: k-th VFS call) of every request kind in two states, library and HTTP entry; the faulted request answers an error or the truth and leaves the state before or the complete state after; afterwards, on the same server object with faults off: GetChild(latest) = not-found, AddVersion(latest) accepted, and it reads back",
        "scenarios": tasks.len(), "fault_runs": runs, "findings_for_this_property": kept,
    }));
}

/// C14 through the real executable: what it puts on the wire for an accepted version - the
/// X-Snapshot-Request header in particular - must be the library outcome for the configuration it
/// was started with, the defaults included (a server started without any snapshot option, a
/// snapshot aged across the default thresholds).
fn c14_executable_part(rep: &mut Report, tier: &str) {
    if !crate::ebin::server_binary().exists() {
        rep.machinery_errors.push(format!("server binary {} not built (the ./check driver builds it)", crate::ebin::server_binary().display()));
        return;
    }
    use crate::ebin::{Launch, Via};
    let quick = tier != "thorough";
    let base = Launch { listen: vec!["v4".into()], listen_via: Via::Flag, data_via: Via::Flag, allow: 0, allow_via: Via::Flag, versions: None, versions_via: Via::Flag, days: None, days_via: Via::Flag, log: false };
    let mut ls = vec![base.clone(), Launch { log: true, ..base.clone() }, Launch { versions: Some(3), days: Some(2), ..base.clone() }, Launch { versions: Some(1), versions_via: Via::Env, ..base.clone() }, Launch { days: Some(0), days_via: Via::Env, ..base.clone() }];
    if !quick {
        ls.extend(crate::ebin::launches(true).into_iter().filter(|l| l.versions.is_some() || l.days.is_some()));
    }
    let tasks: Vec<Value> = ls.iter().map(|l| l.to_json()).collect();
    let mut pool = crate::pool::Pool::spawn(threads().min(tasks.len()), "bin", &json!({"seed": seed()}));
    let results = pool.map(&tasks);
    drop(pool);
    let mut nreq = 0u64;
    for (k, r) in results.iter().enumerate() {
        match r {
            Ok(res) => {
                if let Some(e) = res["error"].as_str() {
                    rep.machinery_errors.push(e.to_string());
                    continue;
                }
                nreq += res["requests"].as_u64().unwrap_or(0);
                for f in res["findings"].as_array().cloned().unwrap_or_default() {
                    let class = f["class"].as_str().unwrap_or("");
                    if class == "machinery" {
                        rep.machinery_errors.push(f["msg"].as_str().unwrap_or("").to_string());
                    } else if class == "snapshot-targets-ignored" || class == "protocol" {
                        rep.violations.push(Violation {
                            property: "C14".into(),
                            signature: format!("ebin|{class}"),
                            message: format!("real executable, configuration {}: {}", tasks[k], f["msg"].as_str().unwrap_or("")),
                            replay: json!({"engine": "ebin", "launch": tasks[k]}),
                        });
                    }
                }
            }
            Err(e) => rep.machinery_errors.push(format!("bin worker: {e}")),
        }
    }
    rep.cov("executable_sessions", json!({"launches": tasks.len(), "requests_over_tcp": nreq, "rule": "the executable built from /repo started without any snapshot option (and with a few), a protocol session over TCP with the snapshot aged to 2, 3, 15 and 22 days from outside: X-Version-Id and X-Snapshot-Request of every accepted version must be what the library answers for that configuration"}));
}

/// C09 under overlap: uploads of two different clients in flight on one worker, every
/// interleaving of their chunk deliveries (the in-process service's real handlers; the order of
/// deliveries is decided by the harness). What each client reads back must be exactly what that
/// client uploaded - nothing of the other's, nothing missing.
fn c09_overlap_part(rep: &mut Report, tier: &str) {
    let quick = tier != "thorough";
    let mut tasks = vec![];
    for spec in ["MemHttp", "SqlHttp"] {
        for kinds in [["version", "version"], ["snapshot", "snapshot"], ["version", "snapshot"]] {
            tasks.push(json!({"spec": spec, "route": "interleaved", "items": [], "interleaved": kinds, "max_chunks": if quick { 3 } else { 4 }}));
        }
    }
    let mut pool = crate::pool::Pool::spawn(threads().min(tasks.len()), "payload", &json!({"seed": seed()}));
    // each of these tasks takes a second or two; the service is one single-threaded runtime, and the
    // only thing that can stop it for minutes is the subject itself: something held across the
    // suspension of one client's upload that the other client's request needs (a verdict, below)
    pool.stall_s = Some(300);
    let results = pool.map(&tasks);
    drop(pool);
    let mut n = 0u64;
    for (k, r) in results.iter().enumerate() {
        if let Err(e) = r {
            if e.contains("worker stalled") {
                rep.violations.push(Violation {
                    property: "C09".into(),
                    signature: format!("epayload|{}|overlap-no-progress", tasks[k]["spec"].as_str().unwrap_or("")),
                    message: format!("[{} uploads of clients A and B overlapping ({})] the service made no progress for 300 s: one client's suspended upload blocks the other client's request for good", tasks[k]["spec"].as_str().unwrap_or(""), tasks[k]["interleaved"]),
                    replay: json!({"engine": "epayload", "task": tasks[k]}),
                });
                continue;
            }
        }
        match r {
            Ok(res) => {
                if let Some(e) = res["error"].as_str() {
                    rep.machinery_errors.push(format!("{}: {e}", tasks[k]));
                    continue;
                }
                n += res["interleavings"].as_u64().unwrap_or(0);
                for f in res["findings"].as_array().cloned().unwrap_or_default() {
                    rep.violations.push(Violation {
                        property: "C09".into(),
                        signature: format!("epayload|{}|{}", tasks[k]["spec"].as_str().unwrap_or(""), f["class"].as_str().unwrap_or("")),
                        message: format!("[{} uploads of clients A and B overlapping: {}] {}", tasks[k]["spec"].as_str().unwrap_or(""), f["payload"].as_str().unwrap_or(""), f["msg"].as_str().unwrap_or("")),
                        replay: json!({"engine": "epayload", "task": tasks[k]}),
                    });
                }
            }
            Err(e) => rep.machinery_errors.push(format!("payload worker: {e}")),
        }
    }
    rep.cov("overlapping_uploads_of_two_clients", json!({
        "rule": "two uploads (version/version, snapshot/snapshot, version/snapshot) of clients A and B in flight on one worker of the real actix service, 1..max chunks each, every interleaving of the chunk deliveries and ends of body; each client then reads back exactly its own bytes",
        "interleavings": n, "scenarios": tasks.len(),
    }));
    rep.add_count("traces_validated_against_impl", n);
}

/// C18 where the refusal is the storage's: a request that is answered with an error because a
/// storage step failed was refused - what it had written by then must be gone again. Every
/// single fault plan of the storage-trait and SQL-statement layers (thorough: VFS too), every
/// request kind, two states, library and HTTP entry; kept: error answers that leave a state
/// which is neither the one before nor the one after the request.
fn c18_fault_part(rep: &mut Report, tier: &str) {
    use crate::efault::FOp;
    let quick = tier != "thorough";
    let mut tasks = vec![];
    for layer in if quick { vec!["trait", "sql"] } else { vec!["trait", "sql", "vfs"] } {
        for spec in ["SqlLib", "SqlHttp"] {
            for state in ["empty", "one-version", "chain+snapshot"] {
                for op in FOp::all() {
                    if state == "empty" && !matches!(op, FOp::AvNewClient | FOp::GetChild | FOp::GetSnapshot | FOp::AsSmall) {
                        continue;
                    }
                    if matches!(op, FOp::As50k | FOp::Av10k) && quick {
                        continue;
                    }
                    tasks.push(json!({"layer": layer, "spec": spec, "state": state, "op": op.name(), "double": false, "window": 0}));
                }
            }
        }
    }
    // the database busy when the request arrives (another connection holds the write lock for
    // the first W attempts): nothing fails at or after a commit here, so an error answer must
    // leave exactly the state before
    let windows: Vec<usize> = if quick { vec![1, 10, 19, 21, 30, 45, 61, 75, 90, 99, 101, 105, 110, 119, 121, 125, 140, 150, 165, 175, 200, 250] } else { (1..=260).collect() };
    for spec in ["SqlLib", "SqlHttp"] {
        for (state, op) in [("one-version", FOp::AvSmall), ("chain+snapshot", FOp::AvSmall), ("chain+snapshot", FOp::AsSmall), ("empty", FOp::AvNewClient)] {
            if quick && spec == "SqlHttp" && state == "one-version" {
                continue;
            }
            for ch in windows.chunks(8) {
                tasks.push(json!({"layer": "busy", "spec": spec, "state": state, "op": op.name(), "double": false, "window": 0, "windows": ch, "strict": true}));
            }
        }
    }
    let mut pool = crate::pool::Pool::spawn(threads(), "fault", &json!({"seed": seed()}));
    let results = pool.map(&tasks);
    drop(pool);
    let (mut runs, mut kept) = (0u64, 0u64);
    for (k, r) in results.iter().enumerate() {
        match r {
            Ok(res) => {
                if let Some(e) = res["error"].as_str() {
                    rep.machinery_errors.push(format!("{}: {e}", tasks[k]));
                    continue;
                }
                runs += res["runs"].as_u64().unwrap_or(0);
                for f in res["findings"].as_array().cloned().unwrap_or_default() {
                    if f["class"] == "partial-effect" || f["class"] == "error-but-applied" {
                        kept += 1;
                        rep.violations.push(Violation {
                            property: "C18".into(),
                            signature: format!("efault|{}|{}|{}|refused-but-written", tasks[k]["layer"].as_str().unwrap_or(""), tasks[k]["spec"].as_str().unwrap_or(""), tasks[k]["op"].as_str().unwrap_or("")),
                            message: format!("[{} layer, {}, state {}, request {}] {} — fault {}", tasks[k]["layer"].as_str().unwrap_or(""), tasks[k]["spec"].as_str().unwrap_or(""), tasks[k]["state"].as_str().unwrap_or(""), tasks[k]["op"].as_str().unwrap_or(""), f["msg"].as_str().unwrap_or(""), f["fault"]),
                            replay: json!({"engine": "efault", "task": tasks[k], "fault": f["fault"]}),
                        });
                    }
                }
            }
            Err(e) => rep.machinery_errors.push(format!("fault worker: {e}")),
        }
    }
    rep.cov("refused_by_a_storage_failure", json!({
        "rule": "every single fault plan (k-th storage-trait call fails before/after taking effect; one kind of SQL statement aborted at statement level; thorough: k-th VFS call) of every request kind in three states, library and HTTP entry; a request answered with an error must leave either the state before it or - if the failure came after its commit - the complete state after it, never a part",
        "scenarios": tasks.len(), "fault_runs": runs, "findings_for_this_property": kept,
    }));
}

const SIZE_PART: [&str; 8] = ["C01", "C02", "C07", "C08", "C10", "C11", "C13", "C14"];

fn seq_check(id: &str, tier: &str, replay: Option<&str>) -> i32 {
    let mut rep = Report::new(id, tier, "model_checking");
    let runs = seq_runs(id, tier);
    if let Some(file) = replay {
        return seq_replay(id, tier, file, &runs);
    }
    let mut runs_json = vec![];
    let mut exhaustive = true;
    let mut samples: Vec<Value> = vec![];
    let mut outcome_classes = std::collections::BTreeSet::new();
    for (name, p) in &runs {
        let r = eseq::run(p);
        exhaustive &= r.exhaustive;
        for s in r.samples.iter().take(6) {
            samples.push(s.clone());
        }
        for k in r.stats.outcomes.keys() {
            outcome_classes.insert(k.clone());
        }
        absorb_seq(&mut rep, id, name, p, &r, &mut runs_json);
    }
    rep.cov("runs", json!(runs_json));
    rep.cov("samples", json!(samples));
    rep.cov("exhaustive", json!(exhaustive));
    rep.cov("distinct_outcome_classes", json!(outcome_classes.into_iter().collect::<Vec<_>>()));
    // the concurrent half of properties that say "always": the same operations under the
    // controlled scheduler (all schedules up to the preemption bound, linearizability oracle)
    let extra = sched_extra(id, tier);
    if !extra.is_empty() {
        let quick = tier != "thorough";
        run_sched(&mut rep, id, &extra, if quick { 2 } else { 3 }, if quick { 1500 } else { 60000 }, false);
    }
    if SIZE_PART.contains(&id) {
        size_part(&mut rep, id, tier);
    }
    if id == "C08" {
        c08_fault_part(&mut rep, tier);
    }
    if matches!(id, "C01" | "C02" | "C07") {
        history_fault_part(&mut rep, id, tier);
    }
    if id == "C09" {
        c09_overlap_part(&mut rep, tier);
    }
    if id == "C18" {
        c18_fault_part(&mut rep, tier);
    }
    if id == "C14" {
        c14_executable_part(&mut rep, tier);
    }
    rep.cov("explanation", json!("every state and transition counted is an execution of the real Server / actix handler / storage code; the reference model is compared on each one"));
    rep.assume("bounded depth and alphabet as listed under coverage.runs; states with equal canonical model state are merged after their stored state was compared with the model");
    rep.assume("random version ids enter only through equality (renamed to symbols)");
    rep.finish()
}

fn seq_replay(id: &str, tier: &str, file: &str, runs: &[(String, SeqParams)]) -> i32 {
    let Ok(s) = std::fs::read_to_string(file) else {
        eprintln!("cannot read {file}");
        return 2;
    };
    let v: Value = serde_json::from_str(&s).unwrap_or(Value::Null);
    if v["replay"]["engine"] == "esize" {
        return size_replay(id, file, &v);
    }
    if v["replay"]["engine"] == "ebin" {
        let l = crate::ebin::Launch::from_json(&v["replay"]["launch"]);
        let (f, _) = crate::ebin::session(&l, seed());
        for (class, msg) in f {
            if format!("ebin|{class}") == v["signature"].as_str().unwrap_or("") {
                println!("VIOLATION property={id} replay={file}");
                println!("  {msg}");
                return 1;
            }
        }
        println!("replay of {file}: no violation of {id}");
        return 0;
    }
    if v["replay"]["engine"] == "epayload" {
        let mut pool = crate::pool::Pool::spawn(1, "payload", &json!({"seed": seed()}));
        pool.stall_s = Some(300);
        let r = pool.map(&[v["replay"]["task"].clone()]);
        if let Some(Err(e)) = r.first() {
            if e.contains("worker stalled") {
                println!("VIOLATION property={id} replay={file}");
                println!("  the service made no progress for 300 s");
                return 1;
            }
        }
        if let Some(Ok(res)) = r.first() {
            if let Some(f) = res["findings"].as_array().and_then(|a| a.first()) {
                println!("VIOLATION property={id} replay={file}");
                println!("  {}", f["msg"].as_str().unwrap_or(""));
                return 1;
            }
        }
        println!("replay of {file}: no violation of {id}");
        return 0;
    }
    if v["replay"]["engine"] == "efault" {
        let mut t = v["replay"]["task"].clone();
        t["only"] = v["replay"]["fault"]["plan"].clone();
        let mut pool = crate::pool::Pool::spawn(1, "fault", &json!({"seed": seed()}));
        let r = pool.map(&[t]);
        if let Some(Ok(res)) = r.first() {
            if let Some(f) = res["findings"].as_array().and_then(|a| a.first()) {
                println!("VIOLATION property={id} replay={file}");
                println!("  {}", f["msg"].as_str().unwrap_or(""));
                return 1;
            }
        }
        println!("replay of {file}: no violation of {id}");
        return 0;
    }
    if v["replay"]["engine"] == "esched" {
        let mut pool = crate::pool::Pool::spawn(1, "sched", &json!({"seed": seed()}));
        let r = pool.map(&[json!({"scenario": v["replay"]["scenario"], "replay": v["replay"]["choices"]})]);
        if let Some(Ok(res)) = r.first() {
            if res["ok"] == false {
                println!("VIOLATION property={id} replay={file}");
                println!("  {}", res["msg"].as_str().unwrap_or(""));
                return 1;
            }
        }
        println!("replay of {file}: no violation of {id}");
        return 0;
    }
    let rp = &v["replay"];
    let run = rp["run"].as_str().unwrap_or("");
    let hist: Vec<AOp> = rp["history"]
        .as_array()
        .map(|a| a.iter().filter_map(|x| x.as_str().and_then(AOp::parse)).collect())
        .unwrap_or_default();
    let extra = rp["op"].as_str().and_then(AOp::parse);
    let Some((name, p)) = runs.iter().find(|(n, _)| n == run).or(runs.first()) else {
        eprintln!("no run configuration for {id}");
        return 2;
    };
    let _ = tier;
    let f1 = eseq::replay_history(p, &hist, extra.as_ref());
    let f2 = eseq::replay_history(p, &hist, extra.as_ref());
    let key = |f: &Finding| format!("{}|{}|{}|{:?}|{:?}", f.monitor, f.sut, f.class, f.history, f.op);
    let k1: Vec<String> = f1.iter().map(key).collect();
    let k2: Vec<String> = f2.iter().map(key).collect();
    if k1 != k2 {
        eprintln!("MACHINERY-ERROR: two replays of the same history gave different findings");
        return 2;
    }
    let mut n = 0;
    for f in &f1 {
        if p.monitors.iter().any(|m| *m == f.monitor) {
            let v = finding_to_violation(id, name, f);
            println!("VIOLATION property={} replay={}", id, file);
            println!("  {}", v.message.replace('\n', "\n  "));
            n += 1;
        }
    }
    if n > 0 {
        1
    } else {
        println!("replay of {file}: no violation of {id}");
        0
    }
}

// ---------------------------------------------------------------------------------------------
// E-HTTP based checks: C15, C16, C20

fn http_check(id: &str, tier: &str, replay: Option<&str>) -> i32 {
    let quick = tier != "thorough";
    let mut rep = Report::new(id, tier, "model_checking");
    let mons: Vec<&str> = vec![id];
    // server configurations: (spec, allow-list, empty state, big bodies)
    let mut servers: Vec<(&str, Option<Vec<u8>>, bool, bool)> = vec![];
    match id {
        "C15" => {
            servers.push(("MemHttp", None, false, true));
            servers.push(("SqlHttp", None, false, true));
            servers.push(("MemHttp", None, true, false));
            if !quick {
                servers.push(("SqlHttp", None, true, false));
                servers.push(("MemHttp", Some(vec![0]), false, false));
            }
        }
        "C16" => {
            for allow in [None, Some(vec![]), Some(vec![0]), Some(vec![0, 1])] {
                servers.push(("MemHttp", allow.clone(), false, false));
                if !quick || allow == Some(vec![0]) {
                    servers.push(("SqlHttp", allow.clone(), false, false));
                }
            }
            // long lists (whatever container or search the server keeps them in): A and B among
            // 26 ids; A among 24 with B missing
            let mut both: Vec<u8> = (0..26).collect();
            both.rotate_left(7);
            let mut only_a: Vec<u8> = (2..25).collect();
            only_a.insert(11, 0);
            for allow in [Some(both), Some(only_a)] {
                servers.push(("MemHttp", allow.clone(), false, false));
                servers.push(("SqlHttp", allow.clone(), false, false));
            }
        }
        _ => {
            servers.push(("MemHttp", None, false, false));
            servers.push(("SqlHttp", None, false, false));
            servers.push(("MemHttp", Some(vec![0]), false, false));
            servers.push(("MemHttp", None, true, false));
            if !quick {
                servers.push(("SqlHttp", Some(vec![0]), false, false));
                servers.push(("SqlHttp", None, true, false));
            }
        }
    }
    if let Some(file) = replay {
        let s = std::fs::read_to_string(file).unwrap_or_default();
        let v: Value = serde_json::from_str(&s).unwrap_or(Value::Null);
        if v["replay"]["engine"] == "eseq" {
            return seq_replay(id, tier, file, &c16_c20_seq_runs(id, tier));
        }
        if v["replay"]["engine"] == "ebin" {
            let l = crate::ebin::Launch::from_json(&v["replay"]["launch"]);
            let (f, _) = crate::ebin::session(&l, seed());
            for (class, msg) in f {
                if format!("ebin|{class}") == v["signature"].as_str().unwrap_or("") {
                    println!("VIOLATION property={id} replay={file}");
                    println!("  {msg}");
                    return 1;
                }
            }
            println!("replay of {file}: no violation of {id}");
            return 0;
        }
        if v["replay"]["engine"] == "ebin-wire" {
            // the wire session again; the recorded class must show up
            let (f, _) = crate::ebin::wire_session(seed());
            let want = v["signature"].as_str().unwrap_or("").trim_start_matches("ebin-wire|").to_string();
            for (class, msg) in f {
                if class == want {
                    println!("VIOLATION property={id} replay={file}");
                    println!("  {msg}");
                    return 1;
                }
            }
            println!("replay of {file}: no violation of {id}");
            return 0;
        }
        // grammar replay: re-run the one server configuration and look for the same class
        let t = v["replay"]["task"].clone();
        let mut pool = crate::pool::Pool::spawn(1, "http", &json!({"seed": seed(), "monitors": mons}));
        let mut t1 = t.clone();
        t1["part"] = json!(0);
        t1["parts"] = json!(1);
        let r = pool.map(&[t1]);
        if let Some(Ok(res)) = r.first() {
            for f in res["findings"].as_array().cloned().unwrap_or_default() {
                if f["dim"] == v["replay"]["dim"] {
                    println!("VIOLATION property={id} replay={file}");
                    println!("  {} :: {}", f["msg"].as_str().unwrap_or(""), f["dim"].as_str().unwrap_or(""));
                    return 1;
                }
            }
        }
        println!("replay of {file}: no violation of {id}");
        return 0;
    }
    let parts = threads().max(1);
    let mut tasks = vec![];
    for (spec, allow, empty, big) in &servers {
        for part in 0..parts {
            tasks.push(json!({"spec": spec, "allow": allow, "empty": empty, "big": big, "full_methods": !quick, "part": part, "parts": parts}));
        }
    }
    let mut pool = crate::pool::Pool::spawn(threads(), "http", &json!({"seed": seed(), "monitors": mons}));
    let results = pool.map(&tasks);
    drop(pool);
    let mut statuses: std::collections::BTreeMap<String, u64> = Default::default();
    let mut samples = vec![];
    let mut grammar_sizes = vec![];
    for (k, r) in results.iter().enumerate() {
        match r {
            Ok(res) => {
                if let Some(e) = res["error"].as_str() {
                    rep.machinery_errors.push(e.to_string());
                    continue;
                }
                for key in ["requests", "wellformed", "malformed", "ambiguous", "unlisted", "mutating", "restores", "unbuildable"] {
                    rep.add_count(&format!("grammar_{key}"), res[key].as_u64().unwrap_or(0));
                }
                if tasks[k]["part"] == 0 {
                    grammar_sizes.push(json!({"server": {"spec": tasks[k]["spec"], "allow": tasks[k]["allow"], "empty_state": tasks[k]["empty"], "limit_sized_bodies": tasks[k]["big"]}, "requests_in_grammar": res["grammar_size"]}));
                }
                if let Some(o) = res["statuses"].as_object() {
                    for (s, n) in o {
                        *statuses.entry(s.clone()).or_insert(0) += n.as_u64().unwrap_or(0);
                    }
                }
                for s in res["samples"].as_array().cloned().unwrap_or_default() {
                    if samples.len() < 8 {
                        samples.push(s);
                    }
                }
                for f in res["findings"].as_array().cloned().unwrap_or_default() {
                    rep.violations.push(Violation {
                        property: id.to_string(),
                        signature: format!("ehttp|{}|{}|{}", f["monitor"].as_str().unwrap_or(""), tasks[k]["spec"].as_str().unwrap_or(""), f["class"].as_str().unwrap_or("")),
                        message: format!("[{}] {} :: {}", tasks[k]["spec"].as_str().unwrap_or(""), f["msg"].as_str().unwrap_or(""), f["dim"].as_str().unwrap_or("")),
                        replay: json!({"engine": "ehttp", "task": tasks[k], "dim": f["dim"]}),
                    });
                }
            }
            Err(e) => rep.machinery_errors.push(format!("http worker: {e}")),
        }
    }
    rep.cov("grammar_servers", json!(grammar_sizes));
    rep.cov("grammar_status_histogram", json!(statuses));
    if id == "C16" {
        // the allow-list as the real executable enforces it, over real connections: listed and
        // unlisted ids on all four endpoints, and an unlisted client's requests on a keep-alive
        // connection that has just served a listed one (per request, not per connection)
        if !crate::ebin::server_binary().exists() {
            rep.machinery_errors.push(format!("server binary {} not built (the ./check driver builds it)", crate::ebin::server_binary().display()));
        } else {
            use crate::ebin::{Launch, Via};
            let base = Launch { listen: vec!["v4".into()], listen_via: Via::Flag, data_via: Via::Flag, allow: 1, allow_via: Via::Flag, versions: None, versions_via: Via::Flag, days: None, days_via: Via::Flag, log: false };
            let mut ls = vec![base.clone(), Launch { allow: 2, allow_via: Via::FlagComma, ..base.clone() }, Launch { allow: 2, allow_via: Via::Env, log: true, ..base.clone() }, Launch { allow: 1, allow_via: Via::Env, listen: vec!["v4".into(), "v6".into()], ..base.clone() }];
            if !quick {
                ls.extend(crate::ebin::launches(true).into_iter().filter(|l| l.allow > 0));
            }
            let tasks: Vec<Value> = ls.iter().map(|l| l.to_json()).collect();
            let mut pool = crate::pool::Pool::spawn(threads().min(tasks.len()), "bin", &json!({"seed": seed()}));
            let results = pool.map(&tasks);
            drop(pool);
            let mut nreq = 0u64;
            for (k, r) in results.iter().enumerate() {
                match r {
                    Ok(res) => {
                        if let Some(e) = res["error"].as_str() {
                            rep.machinery_errors.push(e.to_string());
                            continue;
                        }
                        nreq += res["requests"].as_u64().unwrap_or(0);
                        for f in res["findings"].as_array().cloned().unwrap_or_default() {
                            let class = f["class"].as_str().unwrap_or("");
                            if class == "machinery" {
                                rep.machinery_errors.push(f["msg"].as_str().unwrap_or("").to_string());
                            } else if class == "allow-list-not-enforced" || class == "listed-client-refused" {
                                rep.violations.push(Violation {
                                    property: "C16".into(),
                                    signature: format!("ebin|{class}"),
                                    message: format!("real executable, configuration {}: {}", tasks[k], f["msg"].as_str().unwrap_or("")),
                                    replay: json!({"engine": "ebin", "launch": tasks[k]}),
                                });
                            }
                        }
                    }
                    Err(e) => rep.machinery_errors.push(format!("bin worker: {e}")),
                }
            }
            rep.cov("executable_sessions_with_an_allow_list", json!({"launches": tasks.len(), "requests_over_tcp": nreq, "rule": "the executable built from /repo started with an allow-list (one / two ids, by flag / comma list / environment); listed and unlisted ids on all four endpoints over fresh connections, and four requests of an unlisted client (both reads, both uploads) on a keep-alive connection right after a served request of a listed client: 403 every time"}));
        }
    }
    if id == "C15" && crate::ebin::server_binary().exists() {
        // uploads that only exist on a real socket: a body that never completes
        let mut pool = crate::pool::Pool::spawn(1, "bin", &json!({"seed": seed()}));
        let r = pool.map(&[json!({"wire": true})]);
        drop(pool);
        match r.first() {
            Some(Ok(res)) => {
                if let Some(e) = res["error"].as_str() {
                    rep.machinery_errors.push(e.to_string());
                }
                rep.cov("wire_requests_against_the_executable", json!(res["requests"]));
                for f in res["findings"].as_array().cloned().unwrap_or_default() {
                    let class = f["class"].as_str().unwrap_or("");
                    if class == "machinery" {
                        rep.machinery_errors.push(f["msg"].as_str().unwrap_or("").to_string());
                        continue;
                    }
                    rep.violations.push(Violation {
                        property: "C15".into(),
                        signature: format!("ebin-wire|{class}"),
                        message: format!("real executable over TCP: {}", f["msg"].as_str().unwrap_or("")),
                        replay: json!({"engine": "ebin-wire"}),
                    });
                }
            }
            Some(Err(e)) => rep.machinery_errors.push(format!("bin worker: {e}")),
            None => {}
        }
    }
    if id == "C20" && crate::ebin::server_binary().exists() {
        // the real executable (its own middleware stack sits outside WebServer::config): a few
        // launch configurations, every response of the scripted session including the answers
        // to requests made after the database file has been destroyed under the running server
        let all = crate::ebin::launches(true);
        let pick: Vec<&crate::ebin::Launch> = if quick { all.iter().filter(|l| l.allow == 1 || (l.versions.is_some() && l.days.is_some())).take(4).collect() } else { all.iter().collect() };
        let btasks: Vec<Value> = pick.iter().map(|l| l.to_json()).collect();
        let mut pool = crate::pool::Pool::spawn(threads().min(8), "bin", &json!({"seed": seed()}));
        let bres = pool.map(&btasks);
        drop(pool);
        let mut breq = 0u64;
        for (k, r) in bres.iter().enumerate() {
            match r {
                Ok(res) => {
                    breq += res["requests"].as_u64().unwrap_or(0);
                    for f in res["findings"].as_array().cloned().unwrap_or_default() {
                        if f["class"] == "no-cache-control" || f["class"] == "no-answer-on-storage-failure" {
                            rep.violations.push(Violation {
                                property: "C20".into(),
                                signature: format!("ebin|{}", f["class"].as_str().unwrap_or("")),
                                message: format!("real executable, configuration {}: {}", btasks[k], f["msg"].as_str().unwrap_or("")),
                                replay: json!({"engine": "ebin", "launch": btasks[k]}),
                            });
                        }
                    }
                }
                Err(e) => rep.machinery_errors.push(format!("bin worker: {e}")),
            }
        }
        rep.cov("executable_launches", json!(btasks.len()));
        rep.cov("executable_responses_checked", json!(breq));
    }
    // E-SEQ part: C16 listed clients in lock step with a list-less twin; C20 on every E-SEQ response
    let runs = c16_c20_seq_runs(id, tier);
    let mut runs_json = vec![];
    let mut exhaustive = true;
    for (name, p) in &runs {
        let r = eseq::run(p);
        exhaustive &= r.exhaustive;
        for s in r.samples.iter().take(3) {
            samples.push(s.clone());
        }
        absorb_seq(&mut rep, id, name, p, &r, &mut runs_json);
    }
    rep.cov("runs", json!(runs_json));
    let reqs = rep.coverage.get("grammar_requests").and_then(|v| v.as_u64()).unwrap_or(0);
    if runs.is_empty() {
        // model-checking keys for a purely grammar-driven check: one state per server, one
        // transition per request sent through the real app
        rep.add_count("states", servers.len() as u64);
        rep.add_count("transitions", reqs);
        rep.add_count("traces_validated_against_impl", reqs);
    } else {
        rep.add_count("transitions", reqs);
        rep.add_count("traces_validated_against_impl", reqs);
    }
    rep.cov("samples", json!(samples));
    rep.cov("exhaustive", json!(exhaustive));
    rep.assume("only requests the in-process actix service can express (syntactically valid HTTP); responses fabricated by the HTTP codec before the app runs are out of scope");
    rep.assume("alternative spellings of a well-formed uuid (upper case, simple, braced, urn) count as well-formed: they must be served or refused with 4xx, never 5xx");
    rep.finish()
}

fn c16_c20_seq_runs(id: &str, tier: &str) -> Vec<(String, SeqParams)> {
    let quick = tier != "thorough";
    let mk = |name: &str, specs: Vec<crate::sut::SutSpec>, mons: Vec<&'static str>, a: Alphabet, depth: usize| {
        (
            name.to_string(),
            SeqParams {
                alphabet: a,
                cfg: Config { days: 2, versions: 2 },
                specs,
                max_depth: depth,
                unmerged_depth: 1,
                monitors: mons,
                reopen_probe: false,
                solo_runs: false,
                max_states: if quick { 6000 } else { 400_000 },
                wall_cap_s: if quick { 40.0 } else { 1500.0 },
                threads: threads(),
                seed: seed(),
                reopen_subsets_up_to: 0,
            },
        )
    };
    match id {
        "C20" => vec![mk("every HTTP response of the history exploration", vec![MEM_HTTP, SQL_HTTP], vec!["C20"], alpha(2, 2, true, false, true, &[2, 3]), if quick { D2Q } else { D2T })],
        "C16" => vec![
            mk("listed clients: allow-listed servers in lock step with list-less twins", vec![MEM_HTTP, crate::sut::MEM_HTTP_ALLOW, SQL_HTTP, crate::sut::SQL_HTTP_ALLOW], vec!["C16"], alpha(2, 2, true, false, true, &[2]), if quick { D2Q } else { D2T }),
            // ... and when the allow-listed server is restarted between any two requests
            mk("listed clients: an allow-listed server rebuilt before every request in lock step with a list-less one that keeps running", vec![SQL_HTTP, SQL_HTTP_ALLOW_REOPEN], vec!["C16"], alpha(2, 1, true, false, true, &[]), if quick { 4 } else { 5 }),
        ],
        _ => vec![],
    }
}

// ---------------------------------------------------------------------------------------------
// C06: payload alphabet

fn c06_check(tier: &str, replay: Option<&str>) -> i32 {
    use crate::epayload::*;
    let quick = tier != "thorough";
    let mut rep = Report::new("C06", tier, "exploration");
    let mut tasks: Vec<Value> = vec![];
    if let Some(file) = replay {
        let s = std::fs::read_to_string(file).unwrap_or_default();
        let v: Value = serde_json::from_str(&s).unwrap_or(Value::Null);
        let mut pool = crate::pool::Pool::spawn(1, "payload", &json!({"seed": seed()}));
        let r = pool.map(&[v["replay"]["task"].clone()]);
        if let Some(Ok(res)) = r.first() {
            if let Some(f) = res["findings"].as_array().and_then(|a| a.first()) {
                println!("VIOLATION property=C06 replay={file}");
                println!("  {}", f["msg"].as_str().unwrap_or(""));
                return 1;
            }
        }
        println!("replay of {file}: no violation of C06");
        return 0;
    }
    let mut lens = lengths(quick);
    if !quick {
        // every single length across the first two pages and their overflow boundaries
        lens.extend(301..=8300);
        lens.sort();
        lens.dedup();
    }
    let mut items: Vec<Value> = vec![];
    for &l in &lens {
        for c in CLASSES {
            if l >= (1 << 16) + 100 && !matches!(*c, "zeros" | "random" | "badutf8") {
                continue;
            }
            items.push(json!({"class": c, "len": l}));
        }
    }
    for t in SPECIAL_TEXTS {
        items.push(json!({"text": t}));
    }
    for c in CODED {
        items.push(json!({"coded": c}));
    }
    for b in 0..256u64 {
        items.push(json!({"byte": b}));
    }
    if !quick {
        for b in 0..65536u64 {
            items.push(json!({"bytes2": b}));
        }
    }
    // chunking product (HTTP only)
    let mut chunk_items: Vec<Value> = vec![];
    for l in 1..=6usize {
        for c in ["random", "nul", "badutf8"] {
            chunk_items.push(json!({"class": c, "len": l}));
        }
    }
    for l in [7usize, 300, 3964, 4061, 4096, 4097, 8192, 12288, 65536, (1 << 20) + 1] {
        chunk_items.push(json!({"class": "random", "len": l}));
    }
    if !quick {
        for l in [4000usize, 4062, 5000, 16384, 20000, 1 << 21] {
            chunk_items.push(json!({"class": "badutf8", "len": l}));
        }
    }
    let piece = 300;
    for spec in ["MemLib", "SqlLib", "MemHttp", "SqlHttp"] {
        for route in ["version", "snapshot"] {
            for ch in items.chunks(piece) {
                tasks.push(json!({"spec": spec, "route": route, "items": ch, "chunking": false}));
            }
            if spec.ends_with("Http") {
                for ch in chunk_items.chunks(4) {
                    tasks.push(json!({"spec": spec, "route": route, "items": ch, "chunking": true}));
                }
            }
        }
    }
    // two uploads in flight on one worker: every interleaving of their chunk deliveries
    for spec in ["MemHttp", "SqlHttp"] {
        for kinds in [["version", "version"], ["snapshot", "snapshot"], ["version", "snapshot"]] {
            tasks.push(json!({"spec": spec, "route": "interleaved", "items": [], "interleaved": kinds, "max_chunks": if quick { 3 } else { 4 }}));
        }
        // transfers that stall between two chunks (virtual time)
        tasks.push(json!({"spec": spec, "route": "stalled", "items": [], "stalled": true}));
    }
    // several clients with versions on one and the same parent id
    for spec in ["MemLib", "SqlLib", "MemHttp", "SqlHttp"] {
        tasks.push(json!({"spec": spec, "route": "shared-parent", "items": [], "shared_parent": true}));
    }
    let mut pool = crate::pool::Pool::spawn(threads(), "payload", &json!({"seed": seed()}));
    let results = pool.map(&tasks);
    drop(pool);
    let mut roundtrips = 0u64;
    let mut chunkings = 0u64;
    let mut interleavings = 0u64;
    let mut stalled = 0u64;
    for (k, r) in results.iter().enumerate() {
        match r {
            Ok(res) => {
                if let Some(e) = res["error"].as_str() {
                    rep.machinery_errors.push(e.to_string());
                    continue;
                }
                roundtrips += res["roundtrips"].as_u64().unwrap_or(0);
                chunkings += res["chunkings"].as_u64().unwrap_or(0);
                interleavings += res["interleavings"].as_u64().unwrap_or(0);
                stalled += res["stalled"].as_u64().unwrap_or(0);
                for f in res["findings"].as_array().cloned().unwrap_or_default() {
                    let mut t1 = tasks[k].clone();
                    // narrow the replay to the failing payload
                    let label = f["payload"].as_str().unwrap_or("").to_string();
                    let only: Vec<Value> = tasks[k]["items"].as_array().unwrap().iter().filter(|it| {
                        let l = if let Some(c) = it["class"].as_str() { format!("{c}:{}", it["len"]) } else if let Some(t) = it["text"].as_str() { format!("text:{t:?}") } else if let Some(b) = it["byte"].as_u64() { format!("byte:{b:#04x}") } else { format!("bytes2:{:#06x}", it["bytes2"].as_u64().unwrap_or(0)) };
                        l == label
                    }).cloned().collect();
                    if tasks[k]["interleaved"].is_null() && tasks[k]["stalled"].is_null() {
                        t1["items"] = json!(only);
                    }
                    rep.violations.push(Violation {
                        property: "C06".into(),
                        signature: format!("payload|{}|{}|{}", tasks[k]["spec"].as_str().unwrap_or(""), tasks[k]["route"].as_str().unwrap_or(""), f["class"].as_str().unwrap_or("")),
                        message: format!("[{} {}] payload {} ({}): {}", tasks[k]["spec"].as_str().unwrap_or(""), tasks[k]["route"].as_str().unwrap_or(""), label, f["chunking"].as_str().unwrap_or(""), f["msg"].as_str().unwrap_or("")),
                        replay: json!({"engine": "epayload", "task": t1}),
                    });
                }
            }
            Err(e) => rep.machinery_errors.push(format!("payload worker: {e}")),
        }
    }
    rep.cov("evaluations", json!(roundtrips));
    rep.cov("distinct_nontrivial", json!(items.len() + chunk_items.len()));
    rep.cov("rule", json!("one evaluation = one upload through the real code followed by reading it back and comparing bytes and ids; payloads are enumerated from a boundary-structured alphabet (every length 1..300, every length 3800..4200, +-60 around multiples of 4092/4096 up to 5 pages, +-40 around 2^14 and 2^16, 1 MiB +-1; 7 content classes; numeric-looking texts; payloads that are themselves complete / truncated / trailed zlib, gzip and raw-deflate streams, other compressors' magic numbers, a SQLite file header, base64 / hex / JSON / PEM text; all 256 one-byte payloads; thorough: all 65536 two-byte payloads, 2 MiB, 16 MiB); distinct = distinct payloads of the alphabet, each non-trivial by construction (non-empty, distinct bytes or length)"));
    rep.cov("lengths", json!(lens.len()));
    rep.cov("classes", json!(CLASSES));
    rep.cov("explicit_chunkings", json!(chunkings));
    rep.cov("interleaved_upload_pairs", json!(interleavings));
    rep.cov("stalled_uploads", json!(stalled));
    rep.cov("implementations", json!(["MemLib", "SqlLib", "MemHttp", "SqlHttp"]));
    rep.cov("routes", json!(["add-version -> get-child-version", "add-snapshot -> snapshot"]));
    rep.cov("samples", json!([items[0], items[items.len() / 2], chunk_items[0], {"text": SPECIAL_TEXTS[1]}]));
    rep.cov("exhaustive", json!(true));
    rep.assume("exhaustive over the stated payload alphabet only; the full payload space (up to 100 MiB of arbitrary bytes) cannot be enumerated");
    rep.assume("chunk boundaries are those of the in-process payload stream; wire-level chunking over a socket is exercised by C17's sessions");
    rep.finish()
}

// ---------------------------------------------------------------------------------------------
// C04: crash points

fn c04_check(tier: &str, replay: Option<&str>) -> i32 {
    let quick = tier != "thorough";
    let mut rep = Report::new("C04", tier, "fault_enumeration");
    if let Some(file) = replay {
        let s = std::fs::read_to_string(file).unwrap_or_default();
        let v: Value = serde_json::from_str(&s).unwrap_or(Value::Null);
        if v["replay"]["engine"] == "ebin-ack-kill" {
            let route = v["replay"]["task"]["ack_kill"].as_str().unwrap_or("add-snapshot").to_string();
            let (f, _) = crate::ebin::ack_kill_session(seed(), &route);
            for (class, msg) in f {
                if format!("ebin-ack-kill|{class}") == v["signature"].as_str().unwrap_or("") {
                    println!("VIOLATION property=C04 replay={file}");
                    println!("  {msg}");
                    return 1;
                }
            }
            println!("replay of {file}: no violation of C04");
            return 0;
        }
        let mut t = v["replay"]["task"].clone();
        t["part"] = json!(0);
        t["parts"] = json!(1);
        let mut pool = crate::pool::Pool::spawn(1, "crash", &json!({"seed": seed()}));
        let r = pool.map(&[t]);
        if let Some(Ok(res)) = r.first() {
            for f in res["findings"].as_array().cloned().unwrap_or_default() {
                if f["point"] == v["replay"]["point"] && f["image"] == v["replay"]["image"] {
                    println!("VIOLATION property=C04 replay={file}");
                    println!("  {}", f["msg"].as_str().unwrap_or(""));
                    return 1;
                }
            }
        }
        println!("replay of {file}: no violation of C04");
        return 0;
    }
    let hists = crate::ecrash::histories(quick);
    let parts = if quick { 4 } else { 2 };
    let cap = if quick { 8 } else { 12 };
    let pair_limit = if quick { 16 } else { 40 };
    let mut tasks = vec![];
    for h in &hists {
        let names: Vec<&str> = h.iter().map(|c| c.name()).collect();
        let big = h.iter().any(|c| matches!(c, crate::ecrash::COp::Av1m | crate::ecrash::COp::Av100k | crate::ecrash::COp::Av300k | crate::ecrash::COp::As2m));
        let pp = if big { parts * 4 } else { parts };
        for part in 0..pp {
            // torn sectors and the larger subset cap for histories of up to two requests; length-3
            // histories with the quick tier's adversary (the count of images grows 8x with tearing)
            let nreq = h.iter().filter(|c| **c != crate::ecrash::COp::HoldConnection).count();
            let (cap_h, pl_h, torn_h) = if quick { (cap, pair_limit, false) } else if nreq <= 1 { (cap, pair_limit, true) } else if nreq == 2 { (10, 24, false) } else { (8, 16, false) };
            // recovery through the start-up path of the real executable: every process-crash
            // image; thorough: every image of the histories of up to two requests without tearing
            // (thorough: also every power-loss image of the two-request histories that run while
            // another connection is held open - the ones whose write-ahead log has content)
            let held = h.iter().any(|c| *c == crate::ecrash::COp::HoldConnection);
            let via_exec = if !quick && held && nreq <= 2 && !torn_h { 2 } else { 1 };
            tasks.push(json!({"hist": names, "part": part, "parts": pp, "cap": cap_h, "pair_limit": pl_h, "torn": torn_h, "via_exec": via_exec}));
        }
    }
    // shortest histories first; the thorough tier works through them in rounds and stops taking
    // new rounds after its wall-clock budget (reported as a cap: what was finished is complete)
    tasks.sort_by_key(|t| (t["hist"].as_array().map(|a| a.len()).unwrap_or(0), t["via_exec"].as_u64().unwrap_or(0)));
    let wall_budget: f64 = std::env::var("TCSS_C04_WALL_S").ok().and_then(|s| s.parse().ok()).unwrap_or(if quick { 600.0 } else { 2400.0 });
    let all_tasks = tasks.len();
    let mut pool = crate::pool::Pool::spawn(threads(), "crash", &json!({"seed": seed()}));
    let mut results = vec![];
    let mut done = 0usize;
    let round = (threads() * 6).max(16);
    let t_start = std::time::Instant::now();
    while done < tasks.len() {
        if t_start.elapsed().as_secs_f64() > wall_budget {
            break;
        }
        let end = (done + round).min(tasks.len());
        results.extend(pool.map(&tasks[done..end]));
        done = end;
    }
    drop(pool);
    if done < all_tasks {
        let skipped: std::collections::BTreeSet<usize> = tasks[done..].iter().map(|t| t["hist"].as_array().map(|a| a.len()).unwrap_or(0)).collect();
        rep.cov("cap", json!(format!("wall-clock budget of {wall_budget} s used up after {done} of {all_tasks} work units (histories in order of length); not started: units of histories with {:?} operations; everything started was finished", skipped)));
        tasks.truncate(done);
    }
    let capped = done < all_tasks;
    let mut samples = vec![];
    for (k, r) in results.iter().enumerate() {
        match r {
            Ok(res) => {
                if let Some(e) = res["error"].as_str() {
                    rep.machinery_errors.push(format!("{:?}: {e}", tasks[k]["hist"]));
                    continue;
                }
                if let Some(e) = res["conformance_error"].as_str() {
                    rep.machinery_errors.push(format!("device model does not conform for {:?}: {e}", tasks[k]["hist"]));
                }
                for key in ["crash_points", "images", "distinct_images", "process_images", "power_images", "torn_images", "recovered_before", "recovered_after", "bounded_points", "long_epoch_points", "exec_recoveries"] {
                    rep.add_count(key, res[key].as_u64().unwrap_or(0));
                }
                let mp = rep.coverage.get("max_unsynced_writes").and_then(|v| v.as_u64()).unwrap_or(0).max(res["max_pending"].as_u64().unwrap_or(0));
                rep.cov("max_unsynced_writes", json!(mp));
                if tasks[k]["part"] == 0 && samples.len() < 6 {
                    samples.push(json!({"history": tasks[k]["hist"], "vfs_log_entries": res["log_len"]}));
                }
                for f in res["findings"].as_array().cloned().unwrap_or_default() {
                    if f["class"] == "machinery" {
                        rep.machinery_errors.push(format!("history {:?}: {}", tasks[k]["hist"], f["msg"].as_str().unwrap_or("")));
                        continue;
                    }
                    rep.violations.push(Violation {
                        property: "C04".into(),
                        signature: format!("ecrash|{}", f["class"].as_str().unwrap_or("")),
                        message: format!("history {:?}: {}", tasks[k]["hist"], f["msg"].as_str().unwrap_or("")),
                        replay: json!({"engine": "ecrash", "task": tasks[k], "point": f["point"], "image": f["image"]}),
                    });
                }
            }
            Err(e) => rep.machinery_errors.push(format!("crash worker: {e}")),
        }
    }
    // acknowledged means committed, in real time: the executable, an upload that has to wait for
    // the database (the write lock held from outside for 3 s), a kill the moment it is answered
    if crate::ebin::server_binary().exists() {
        let tasks2 = vec![json!({"ack_kill": "add-snapshot"}), json!({"ack_kill": "add-version"})];
        let mut pool = crate::pool::Pool::spawn(2, "bin", &json!({"seed": seed()}));
        let r2 = pool.map(&tasks2);
        drop(pool);
        let mut n2 = 0u64;
        for (k, r) in r2.iter().enumerate() {
            match r {
                Ok(res) => {
                    if let Some(e) = res["error"].as_str() {
                        rep.machinery_errors.push(e.to_string());
                        continue;
                    }
                    n2 += res["requests"].as_u64().unwrap_or(0);
                    for f in res["findings"].as_array().cloned().unwrap_or_default() {
                        let class = f["class"].as_str().unwrap_or("");
                        if class == "machinery" {
                            rep.machinery_errors.push(f["msg"].as_str().unwrap_or("").to_string());
                            continue;
                        }
                        rep.violations.push(Violation {
                            property: "C04".into(),
                            signature: format!("ebin-ack-kill|{class}"),
                            message: format!("real executable: {}", f["msg"].as_str().unwrap_or("")),
                            replay: json!({"engine": "ebin-ack-kill", "task": tasks2[k]}),
                        });
                    }
                }
                Err(e) => rep.machinery_errors.push(format!("bin worker: {e}")),
            }
        }
        rep.cov("acknowledged_then_killed", json!({"sessions": 2, "requests_over_tcp": n2, "rule": "the executable built from /repo; another connection holds the database's write lock for three real seconds while an AddSnapshot / AddVersion arrives; the server is killed the moment the upload is answered; after the restart an acknowledged upload must be there, and no upload may be acknowledged while the lock is still held"}));
    } else {
        rep.machinery_errors.push(format!("server binary {} not built (the ./check driver builds it)", crate::ebin::server_binary().display()));
    }
    let images = rep.coverage.get("images").and_then(|v| v.as_u64()).unwrap_or(0);
    let distinct = rep.coverage.get("distinct_images").and_then(|v| v.as_u64()).unwrap_or(0);
    rep.cov("histories", json!(hists.len()));
    rep.cov("evaluations", json!(images));
    rep.cov("distinct_nontrivial", json!(distinct));
    rep.cov("rule", json!(format!("one evaluation = one crash image (process-crash image, or power-loss image = last synced content of every file + a subset of the later unsynced writes/truncates in log order) of one crash point (every state-changing VFS call and every request boundary) of one history, recovered by the real SqliteStorage::new + integrity_check + full protocol read-back + one more AddVersion/AddSnapshot per client; process-crash images (thorough: every image of the two-request histories that run while another connection is held open) are in addition recovered the way an operator does it - the real executable built from /repo is started on the image, queried over TCP, killed, and what it leaves must recover to the same state (count: exec_recoveries); all subsets when at most {cap} writes are unsynced, otherwise every prefix, every all-but-one and only-one, and all-but-two / only-two up to {pair_limit} unsynced writes; above 64 unsynced writes (multi-megabyte commits) only the deviations from a prefix, the prefixes themselves being the process-crash images of earlier crash points; distinct = images that differ in bytes or in what had been acknowledged (identical ones are recovered once)")));
    rep.cov("samples", json!(samples));
    rep.cov("exhaustive", json!(!capped));
    rep.cov("work_units", json!({"finished": done, "planned": all_tasks}));
    rep.cov("subset_cap_log2", json!(cap));
    rep.assume("file-system model: a write may be lost until the file is synced; file creation and unlink are ordered and durable (the same device model as SQLite's own crash tests)");
    rep.assume("the operation log of the shim VFS replayed on the model reproduces the files on disk byte for byte (checked on every run)");
    rep.assume("an absent client and an existing client with no versions and no snapshot are the same stored state");
    rep.finish()
}

// ---------------------------------------------------------------------------------------------
// C05: fault sequences

fn c05_check(tier: &str, replay: Option<&str>) -> i32 {
    use crate::efault::FOp;
    let quick = tier != "thorough";
    let mut rep = Report::new("C05", tier, "fault_enumeration");
    if let Some(file) = replay {
        let s = std::fs::read_to_string(file).unwrap_or_default();
        let v: Value = serde_json::from_str(&s).unwrap_or(Value::Null);
        let mut t = v["replay"]["task"].clone();
        t["only"] = v["replay"]["fault"]["plan"].clone();
        t["double"] = json!(v["replay"]["task"]["double"].as_bool().unwrap_or(false));
        let mut pool = crate::pool::Pool::spawn(1, "fault", &json!({"seed": seed()}));
        let r = pool.map(&[t]);
        if let Some(Ok(res)) = r.first() {
            if let Some(f) = res["findings"].as_array().and_then(|a| a.first()) {
                println!("VIOLATION property=C05 replay={file}");
                println!("  {}", f["msg"].as_str().unwrap_or(""));
                return 1;
            }
        }
        println!("replay of {file}: no violation of C05");
        return 0;
    }
    // thorough: every canonical state a single client reaches within three mutating requests
    let mut states: Vec<String> = ["empty", "one-version", "chain+snapshot", "chain+50KB-snapshot"].iter().map(|s| s.to_string()).collect();
    if !quick {
        use crate::alphabet::{canon, AOp, IdClass};
        let a = alpha(1, 2, false, false, true, &[]);
        let cfg = Config { days: 14, versions: 100 };
        let mut seen = std::collections::HashSet::new();
        let mut frontier: Vec<(Vec<AOp>, crate::model::Model)> = vec![(vec![], crate::model::Model::new(cfg))];
        for _ in 0..3 {
            let mut next = vec![];
            for (h, m) in &frontier {
                for aop in a.transitions(m) {
                    if matches!(&aop, AOp::AddSnapshot { id: IdClass::Base, .. }) {
                        continue; // the corner the property leaves open
                    }
                    let Some(pl) = eseq::plan(m, &aop, h.len()) else { continue };
                    let (m2, _) = eseq::finalize(&pl, None);
                    if m2.clients == m.clients || !seen.insert(canon(&m2)) {
                        continue;
                    }
                    let mut h2 = h.clone();
                    h2.push(aop);
                    states.push(format!("hist:{}", h2.iter().map(|x| x.show()).collect::<Vec<_>>().join(";")));
                    next.push((h2, m2));
                }
            }
            frontier = next;
        }
    }
    let mut tasks = vec![];
    for layer in ["trait", "vfs", "sql"] {
        for spec in ["SqlLib", "SqlHttp"] {
            for state in states.iter().map(|s| s.as_str()) {
                for op in FOp::all() {
                    if state == "empty" && !matches!(op, FOp::AvNewClient | FOp::GetChild | FOp::GetSnapshot | FOp::AsSmall) {
                        continue; // client A does not exist yet
                    }
                    if state.starts_with("hist:") && matches!(op, FOp::As50k | FOp::Av10k) {
                        continue; // size variants on the four named states only
                    }
                    tasks.push(json!({"layer": layer, "spec": spec, "state": state, "op": op.name(), "double": false, "window": 0}));
                    if layer == "sql" {
                        continue; // statement-level failures have no second fault
                    }
                    let dbl = if state.starts_with("hist:") { layer == "trait" } else if layer == "trait" { true } else if quick { state == "chain+snapshot" && matches!(op, FOp::AvSmall | FOp::AsSmall) || (state == "empty" && op == FOp::AvNewClient && spec == "SqlHttp") } else { true };
                    if dbl {
                        tasks.push(json!({"layer": layer, "spec": spec, "state": state, "op": op.name(), "double": true, "window": if quick { 10 } else { 1000 }}));
                    }
                }
            }
        }
    }
    // the write lock held by somebody else for the first W attempts (alone and together with a
    // statement-level failure)
    let windows: Vec<usize> = if quick { (1..=20).chain([30, 45, 61, 75, 90, 105, 125, 140, 150, 165, 175, 200, 250]).collect() } else { (1..=260).collect() };
    for spec in ["SqlLib", "SqlHttp"] {
        for state in ["one-version", "chain+snapshot", "empty"] {
            for op in FOp::all() {
                if state == "empty" && !matches!(op, FOp::AvNewClient | FOp::AsSmall) {
                    continue;
                }
                if matches!(op, FOp::As50k | FOp::Av10k | FOp::GetChild | FOp::GetSnapshot | FOp::AsDeclined | FOp::AvConflict) && (quick || state != "chain+snapshot") {
                    continue;
                }
                for ch in windows.chunks(12) {
                    tasks.push(json!({"layer": "busy", "spec": spec, "state": state, "op": op.name(), "double": false, "window": 0, "windows": ch}));
                }
            }
        }
    }
    let mut pool = crate::pool::Pool::spawn(threads(), "fault", &json!({"seed": seed()}));
    // a scenario takes seconds (sleeps of the busy handler are intercepted, not slept); nothing
    // but the subject can stop a worker for minutes: a request that never returns after a storage
    // failure - "later requests are served normally" is part of the property, so that is a verdict
    let stall_s: u64 = if quick { 180 } else { 900 };
    pool.stall_s = Some(stall_s);
    let results = pool.map(&tasks);
    drop(pool);
    let mut stalled_reported: std::collections::BTreeSet<String> = Default::default();
    let mut classes: std::collections::BTreeMap<String, u64> = Default::default();
    let mut samples = vec![];
    let mut runs = 0u64;
    let mut nontrivial = 0u64;
    for (k, r) in results.iter().enumerate() {
        match r {
            Ok(res) => {
                if let Some(e) = res["error"].as_str() {
                    rep.machinery_errors.push(format!("{}: {e}", tasks[k]));
                    continue;
                }
                runs += res["runs"].as_u64().unwrap_or(0);
                if let Some(o) = res["classes"].as_object() {
                    for (c, n) in o {
                        *classes.entry(c.clone()).or_insert(0) += n.as_u64().unwrap_or(0);
                        if c != "not-reached" {
                            nontrivial += n.as_u64().unwrap_or(0);
                        }
                    }
                }
                if samples.len() < 6 && k % 17 == 0 {
                    samples.push(json!({"scenario": tasks[k], "storage_or_vfs_calls_in_request": res["calls"], "fault_runs": res["runs"]}));
                }
                for f in res["findings"].as_array().cloned().unwrap_or_default() {
                    rep.violations.push(Violation {
                        property: "C05".into(),
                        signature: format!("efault|{}|{}|{}|{}", tasks[k]["layer"].as_str().unwrap_or(""), tasks[k]["spec"].as_str().unwrap_or(""), tasks[k]["op"].as_str().unwrap_or(""), f["class"].as_str().unwrap_or("")),
                        message: format!("[{} layer, {}, state {}, request {}] {} — fault {}", tasks[k]["layer"].as_str().unwrap_or(""), tasks[k]["spec"].as_str().unwrap_or(""), tasks[k]["state"].as_str().unwrap_or(""), tasks[k]["op"].as_str().unwrap_or(""), f["msg"].as_str().unwrap_or(""), f["fault"]),
                        replay: json!({"engine": "efault", "task": tasks[k], "fault": f["fault"]}),
                    });
                }
            }
            Err(e) if e.contains("worker stalled") => {
                // (the tasks queued behind the stalled one on the same worker come back stalled
                // too: one violation per layer / implementation / request kind)
                let sig = format!("efault|{}|{}|{}|no-progress", tasks[k]["layer"].as_str().unwrap_or(""), tasks[k]["spec"].as_str().unwrap_or(""), tasks[k]["op"].as_str().unwrap_or(""));
                if stalled_reported.insert(sig.clone()) {
                    rep.violations.push(Violation {
                        property: "C05".into(),
                        signature: sig,
                        message: format!("[{} layer, {}, state {}, request {}] no progress for {stall_s} s: a request (the one made to fail, or one after it) never returned — after a storage failure later requests must be served normally", tasks[k]["layer"].as_str().unwrap_or(""), tasks[k]["spec"].as_str().unwrap_or(""), tasks[k]["state"].as_str().unwrap_or(""), tasks[k]["op"].as_str().unwrap_or("")),
                        replay: json!({"engine": "efault", "task": tasks[k], "fault": {"plan": null}}),
                    });
                }
            }
            Err(e) => rep.machinery_errors.push(format!("fault worker: {e}")),
        }
    }
    rep.cov("evaluations", json!(runs));
    rep.cov("distinct_nontrivial", json!(nontrivial));
    rep.cov("rule", json!("one evaluation = one request executed by the real code with one fault plan: the k-th storage-trait call (begin, each read, each write, commit) or the k-th VFS call (open, read, write, sync, truncate, delete, file-size, shm-map, lock) of that request fails, before or after taking effect, one-shot or sticky, for every k; or one kind of SQL statement (insert into versions, update of clients, insert into clients) is aborted at statement level, leaving the transaction open; double faults: all pairs at the trait layer, pairs within the stated window at the VFS layer; followed by a fault-free epilogue. Distinct plans by construction; non-trivial = the planned fault was actually reached and fired"));
    rep.cov("outcome_classes", json!(classes));
    rep.cov("scenarios", json!(tasks.len()));
    rep.cov("samples", json!(samples));
    rep.cov("exhaustive", json!(true));
    rep.assume("only faults that report failure are injected (error return codes); silent corruption or short reads are not storage failures the code can be expected to detect");
    rep.assume("persistent (SQLite) backend only, as the property states; an absent client and an existing client with no versions and no snapshot are the same stored state");
    rep.finish()
}

// ---------------------------------------------------------------------------------------------
// C03: schedules

pub fn c03_scenarios(tier: &str) -> Vec<crate::esched::Scenario> {
    use crate::esched::{Backend, RKind, Scenario};
    let quick = tier != "thorough";
    let kinds = RKind::all();
    let mut out = vec![];
    let backends = [Backend::Mem, Backend::SqlShared, Backend::SqlPerThread];
    let all_backends = [Backend::Mem, Backend::SqlShared, Backend::SqlPerThread, Backend::SqlPerProcess];
    for init in ["unknown", "empty", "chain2+snapshot", "chain3+snapshot"] {
        for http in [false, true] {
            if init == "unknown" && !http {
                continue; // the library never creates clients: every answer is NoSuchClient
            }
            for backend in all_backends {
                // one instance per *process*: quick tier through the HTTP handlers only
                if backend == Backend::SqlPerProcess && quick && !http {
                    continue;
                }
                for a in 0..kinds.len() {
                    for b in a..kinds.len() {
                        out.push(Scenario { init: init.into(), threads: vec![vec![kinds[a]], vec![kinds[b]]], backend, http, lock_points: false, constructor_thread: false, clients: vec![] });
                    }
                }
            }
        }
    }
    // two-request threads: real-time order inside a thread
    let two: Vec<(Vec<RKind>, Vec<RKind>)> = vec![
        (vec![RKind::AvNil], vec![RKind::AsOlder, RKind::GcNil]),
        (vec![RKind::AvLatest], vec![RKind::GcLatest, RKind::GcLatest]),
        (vec![RKind::AvLatest], vec![RKind::AsLatest, RKind::Gs]),
        (vec![RKind::AsLatest], vec![RKind::Gs, RKind::Gs]),
        (vec![RKind::AvLatest, RKind::GcLatest], vec![RKind::AvLatest, RKind::GcLatest]),
        (vec![RKind::AvNil, RKind::GcNil], vec![RKind::AvNil, RKind::GcNil]),
    ];
    for init in ["unknown", "empty", "chain2+snapshot"] {
        for (t1, t2) in &two {
            for backend in all_backends {
                for http in [false, true] {
                    if init == "unknown" && !http {
                        continue;
                    }
                    out.push(Scenario { init: init.into(), threads: vec![t1.clone(), t2.clone()], backend, http, lock_points: false, constructor_thread: false, clients: vec![] });
                }
            }
        }
    }
    if !quick {
        // every pairing again with scheduling points at every SQLite lock call
        for init in ["unknown", "chain2+snapshot"] {
            for backend in [Backend::SqlShared, Backend::SqlPerThread] {
                for a in 0..kinds.len() {
                    for b in a..kinds.len() {
                        out.push(Scenario { init: init.into(), threads: vec![vec![kinds[a]], vec![kinds[b]]], backend, http: true, lock_points: true, constructor_thread: false, clients: vec![] });
                    }
                }
            }
        }
        // triples
        let tk = [RKind::AvLatest, RKind::AvNil, RKind::GcLatest, RKind::AsLatest, RKind::Gs];
        for init in ["unknown", "chain2+snapshot"] {
            for backend in backends {
                for a in 0..tk.len() {
                    for b in a..tk.len() {
                        for c in b..tk.len() {
                            out.push(Scenario { init: init.into(), threads: vec![vec![tk[a]], vec![tk[b]], vec![tk[c]]], backend, http: true, lock_points: false, constructor_thread: false, clients: vec![] });
                        }
                    }
                }
            }
        }
        // a new instance being constructed meanwhile (in this process / in a process of its own)
        for a in [RKind::AvLatest, RKind::AsLatest, RKind::GcLatest] {
            for b in [RKind::AvLatest, RKind::Gs] {
                for backend in [Backend::SqlPerThread, Backend::SqlPerProcess] {
                    out.push(Scenario { init: "chain2+snapshot".into(), threads: vec![vec![a], vec![b]], backend, http: true, lock_points: true, constructor_thread: true, clients: vec![] });
                }
            }
        }
    }
    out
}

/// Run scheduler scenarios and fold results into `rep`. `own_counts`: also fill the
/// model-checking keys (states / transitions / traces) from these runs alone.
fn run_sched(rep: &mut Report, prop: &str, scs: &[crate::esched::Scenario], bound: usize, max_exec: u64, own_counts: bool) {
    let tasks: Vec<Value> = scs.iter().map(|s| json!({"scenario": s.to_json(), "bound": bound, "max_exec": max_exec})).collect();
    // scenarios are worked through in rounds; no new round is started after the wall-clock budget
    // (what was not started is reported as a cap, everything started is finished)
    let wall_budget: f64 = std::env::var("TCSS_SCHED_WALL_S").ok().and_then(|s| s.parse().ok()).unwrap_or(1800.0);
    let mut pool = crate::pool::Pool::spawn(threads(), "sched", &json!({"seed": seed()}));
    let mut results = vec![];
    let t_start = std::time::Instant::now();
    let round = (threads() * 4).max(16);
    let mut done = 0usize;
    while done < tasks.len() && t_start.elapsed().as_secs_f64() <= wall_budget {
        let end = (done + round).min(tasks.len());
        results.extend(pool.map(&tasks[done..end]));
        done = end;
    }
    drop(pool);
    if done < tasks.len() {
        rep.cov("sched_cap", json!(format!("wall-clock budget of {wall_budget} s used up after {done} of {} scenarios; the remaining scenarios were not started", tasks.len())));
        rep.cov("exhaustive", json!(false));
    }
    let scs = &scs[..done];
    let mut by_pre = vec![0u64; bound + 1];
    let mut executions = 0u64;
    let mut capped = 0u64;
    let mut distinct_outcomes = 0u64;
    let mut multi_outcome_scenarios = 0u64;
    let mut samples = vec![];
    let mut blocked = 0u64;
    let mut points = 0u64;
    for (k, r) in results.iter().enumerate() {
        match r {
            Ok(res) => {
                if let Some(e) = res["error"].as_str() {
                    rep.machinery_errors.push(format!("{}: {e}", scs[k].key()));
                    continue;
                }
                if let Some(e) = res["nondeterminism"].as_str() {
                    rep.machinery_errors.push(format!("{}: {e}", scs[k].key()));
                    continue;
                }
                executions += res["executions"].as_u64().unwrap_or(0);
                blocked += res["blocked_events"].as_u64().unwrap_or(0);
                points += res["max_choice_points"].as_u64().unwrap_or(0);
                if res["capped"] == true {
                    capped += 1;
                }
                for (i, n) in res["by_preemptions"].as_array().cloned().unwrap_or_default().iter().enumerate() {
                    if i < by_pre.len() {
                        by_pre[i] += n.as_u64().unwrap_or(0);
                    }
                }
                let no = res["outcomes"].as_object().map(|o| o.len()).unwrap_or(0) as u64;
                distinct_outcomes += no;
                if no > 1 {
                    multi_outcome_scenarios += 1;
                }
                if samples.len() < 6 && no > 1 {
                    samples.push(json!({"scenario": scs[k].to_json(), "schedules_explored": res["executions"], "distinct_outcomes": res["outcomes"]}));
                }
                for f in res["violations"].as_array().cloned().unwrap_or_default() {
                    rep.violations.push(Violation {
                        property: prop.into(),
                        signature: format!("esched|{}|{}", f["class"].as_str().unwrap_or(""), scs[k].key()),
                        message: format!("[{}] {}\n schedule: {}", scs[k].key(), f["msg"].as_str().unwrap_or(""), f["events"]),
                        replay: json!({"engine": "esched", "scenario": scs[k].to_json(), "choices": f["choices"], "events": f["events"]}),
                    });
                }
            }
            Err(e) => rep.machinery_errors.push(format!("sched worker ({}): {e}", scs[k].key())),
        }
    }
    rep.cov("sched_scenarios", json!(scs.len()));
    if own_counts {
        rep.cov("states", json!(executions));
        rep.cov("transitions", json!(points));
        rep.cov("traces_validated_against_impl", json!(executions));
        rep.cov("samples", json!(samples));
        rep.cov("exhaustive", json!(capped == 0 && !rep.coverage.contains_key("sched_cap")));
    } else {
        rep.add_count("traces_validated_against_impl", executions);
        rep.cov("sched_samples", json!(samples));
    }
    rep.cov("schedules_explored", json!(executions));
    rep.cov("schedules_by_preemptions", json!(by_pre));
    rep.cov("preemption_bound", json!(bound));
    rep.cov("sched_scenarios_capped", json!(capped));
    rep.cov("sched_distinct_outcomes_total", json!(distinct_outcomes));
    rep.cov("sched_scenarios_with_several_outcomes", json!(multi_outcome_scenarios));
    rep.cov("blocked_events_observed", json!(blocked));
}

/// Scheduler scenarios that belong to a history-quantified property: the operations the
/// property speaks about, overlapping.
pub fn sched_extra(id: &str, tier: &str) -> Vec<crate::esched::Scenario> {
    use crate::esched::{Backend, RKind, Scenario};
    let quick = tier != "thorough";
    if id == "C09" {
        // requests of two different clients overlapping: each must be answered as if alone
        // (client A has a chain and a snapshot, client B is new to the server)
        let pairs: Vec<(Vec<RKind>, Vec<RKind>)> = vec![
            (vec![RKind::AvLatest], vec![RKind::AvNil]),
            (vec![RKind::AsLatest], vec![RKind::AvNil]),
            (vec![RKind::AvLatest, RKind::GcLatest], vec![RKind::AvNil, RKind::GcNil]),
            (vec![RKind::Gs], vec![RKind::AvNil]),
            (vec![RKind::AvLatest], vec![RKind::AvStale]),
            (vec![RKind::GcNil], vec![RKind::AvNil, RKind::AsLatest]),
            (vec![RKind::AvLatest, RKind::AsLatest], vec![RKind::AvNil, RKind::AsLatest]),
        ];
        let mut out = vec![];
        for (a, b) in &pairs {
            for backend in [Backend::Mem, Backend::SqlShared, Backend::SqlPerThread, Backend::SqlPerProcess] {
                if quick && backend == Backend::SqlPerProcess && a.len() > 1 {
                    continue;
                }
                out.push(Scenario { init: "chain2+snapshot".into(), threads: vec![a.clone(), b.clone()], backend, http: true, lock_points: false, constructor_thread: false, clients: vec![0, 1] });
            }
        }
        return out;
    }
    let pairs: Vec<(Vec<RKind>, Vec<RKind>)> = match id {
        "C11" => return c11_scenarios(tier),
        // the acceptance rule under overlap: a snapshot upload whose check and write are not one
        // step can be overtaken by a newer snapshot or by versions that push it out of the window
        "C10" => {
            let pairs: Vec<(Vec<RKind>, Vec<RKind>)> = vec![
                (vec![RKind::AsLatest], vec![RKind::AsOlder]),
                (vec![RKind::AsLatest], vec![RKind::AsLatest]),
                (vec![RKind::AsOlder], vec![RKind::AvLatest, RKind::AvLatest]),
                (vec![RKind::AsLatest], vec![RKind::AvLatest]),
            ];
            let mut out = vec![];
            for init in ["chain2+snapshot", "chain3+snapshot"] {
                for (a, b) in &pairs {
                    for backend in [Backend::Mem, Backend::SqlShared, Backend::SqlPerThread] {
                        for http in [false, true] {
                            if quick && http && backend != Backend::SqlShared {
                                continue;
                            }
                            out.push(Scenario { init: init.into(), threads: vec![a.clone(), b.clone()], backend, http, lock_points: false, constructor_thread: false, clients: vec![] });
                        }
                    }
                }
            }
            return out;
        }
        // chain shape: overlapping appends, then the chain is read back
        "C01" => vec![
            (vec![RKind::AvLatest], vec![RKind::AvLatest]),
            (vec![RKind::AvLatest, RKind::GcLatest], vec![RKind::AvLatest, RKind::GcLatest]),
            (vec![RKind::AvNil], vec![RKind::AvNil]),
            (vec![RKind::AvLatest], vec![RKind::AvStale]),
        ],
        "C02" => vec![
            (vec![RKind::AvLatest], vec![RKind::AvLatest]),
            (vec![RKind::AvLatest], vec![RKind::AvNil]),
            (vec![RKind::AvLatest], vec![RKind::AvStale]),
            (vec![RKind::AvStale], vec![RKind::AvStale]),
            (vec![RKind::AvLatest], vec![RKind::AsLatest]),
        ],
        "C07" => vec![
            (vec![RKind::AvLatest, RKind::GcLatest], vec![RKind::AvLatest, RKind::GcLatest]),
            (vec![RKind::AvLatest, RKind::GcNil], vec![RKind::AsLatest, RKind::GcNil]),
            (vec![RKind::AvNil, RKind::GcNil], vec![RKind::AvNil, RKind::GcNil]),
        ],
        "C08" => vec![
            (vec![RKind::GcLatest], vec![RKind::AvLatest]),
            (vec![RKind::GcNil], vec![RKind::AvNil]),
            (vec![RKind::GcLatest], vec![RKind::AvStale]),
            (vec![RKind::GcLatest, RKind::GcLatest], vec![RKind::AvLatest]),
            (vec![RKind::GcNil], vec![RKind::AvLatest]),
        ],
        _ => return vec![],
    };
    let mut out = vec![];
    for init in ["empty", "chain2+snapshot"] {
        for (a, b) in &pairs {
            for backend in [Backend::Mem, Backend::SqlShared, Backend::SqlPerThread] {
                for http in [false, true] {
                    if quick && backend == Backend::SqlPerThread && !http {
                        continue;
                    }
                    out.push(Scenario { init: init.into(), threads: vec![a.clone(), b.clone()], backend, http, lock_points: false, constructor_thread: false, clients: vec![] });
                }
            }
        }
    }
    out
}

/// The snapshot pairings of C11 under the scheduler.
pub fn c11_scenarios(tier: &str) -> Vec<crate::esched::Scenario> {
    use crate::esched::{Backend, RKind, Scenario};
    let quick = tier != "thorough";
    let mut out = vec![];
    let pairs: Vec<(Vec<RKind>, Vec<RKind>)> = vec![
        (vec![RKind::AsLatest], vec![RKind::Gs]),
        (vec![RKind::AsLatest], vec![RKind::AvLatest]),
        (vec![RKind::AsLatest], vec![RKind::AsOlder]),
        (vec![RKind::AsLatest], vec![RKind::AsLatest]),
        (vec![RKind::AsOlder], vec![RKind::Gs]),
        (vec![RKind::AsLatest, RKind::Gs], vec![RKind::AvLatest, RKind::Gs]),
        (vec![RKind::AsLatest, RKind::Gs], vec![RKind::AsOlder, RKind::Gs]),
        // a read overtaken by a whole upload, and read again afterwards (by either side)
        (vec![RKind::Gs, RKind::Gs], vec![RKind::AsLatest]),
        (vec![RKind::Gs], vec![RKind::AsLatest, RKind::Gs]),
    ];
    for init in ["chain2+snapshot", "chain3+snapshot"] {
        for (a, b) in &pairs {
            for backend in [Backend::Mem, Backend::SqlShared, Backend::SqlPerThread] {
                for http in [false, true] {
                    out.push(Scenario { init: init.into(), threads: vec![a.clone(), b.clone()], backend, http, lock_points: !quick && backend != Backend::Mem, constructor_thread: false, clients: vec![] });
                }
            }
        }
    }
    if !quick {
        for backend in [Backend::Mem, Backend::SqlShared] {
            out.push(Scenario { init: "chain2+snapshot".into(), threads: vec![vec![RKind::AsLatest], vec![RKind::Gs], vec![RKind::AvLatest]], backend, http: true, lock_points: false, constructor_thread: false, clients: vec![] });
            out.push(Scenario { init: "chain2+snapshot".into(), threads: vec![vec![RKind::AsLatest], vec![RKind::AsOlder], vec![RKind::Gs]], backend, http: true, lock_points: false, constructor_thread: false, clients: vec![] });
        }
    }
    out
}

fn c03_check(tier: &str, replay: Option<&str>) -> i32 {
    let quick = tier != "thorough";
    let mut rep = Report::new("C03", tier, "model_checking");
    if let Some(file) = replay {
        let s = std::fs::read_to_string(file).unwrap_or_default();
        let v: Value = serde_json::from_str(&s).unwrap_or(Value::Null);
        let mut pool = crate::pool::Pool::spawn(1, "sched", &json!({"seed": seed()}));
        let r = pool.map(&[json!({"scenario": v["replay"]["scenario"], "replay": v["replay"]["choices"]})]);
        if let Some(Ok(res)) = r.first() {
            if res["deterministic"] == false {
                eprintln!("MACHINERY-ERROR: the recorded schedule does not replay deterministically");
                return 2;
            }
            if res["ok"] == false {
                println!("VIOLATION property=C03 replay={file}");
                println!("  {}", res["msg"].as_str().unwrap_or(""));
                println!("  schedule: {}", res["events"]);
                return 1;
            }
        }
        println!("replay of {file}: no violation of C03");
        return 0;
    }
    let scs = c03_scenarios(tier);
    let bound = if quick { 2 } else { 3 };
    let max_exec = if quick { 1500 } else { 60000 };
    run_sched(&mut rep, "C03", &scs, bound, max_exec, true);
    rep.cov("explanation", json!("states = complete schedules executed on real threads through the real code (each judged by brute-force linearizability against the reference model, responses and final state); transitions = sum over scenarios of the longest choice sequence"));
    rep.assume("scheduling points: before Storage::txn, before every StorageTxn method, before the transaction is dropped, at request start; thorough adds every SQLite lock call; blocking is observed through SQLite's busy handler (xSleep) and the in-memory mutex's try_lock");
    rep.assume("several instances on one directory are explored both as separate objects in one process and as separate processes (agent processes driven by the same scheduler over pipes), so SQLite's cross-process fcntl locking is exercised and nothing process-global can serialise the instances");
    rep.assume("schedules beyond the preemption bound and more than 3 threads are not explored");
    rep.finish()
}

// ---------------------------------------------------------------------------------------------
// C17: the real executable

fn c17_check(tier: &str, replay: Option<&str>) -> i32 {
    let quick = tier != "thorough";
    let mut rep = Report::new("C17", tier, "exploration");
    if !crate::ebin::server_binary().exists() {
        eprintln!("MACHINERY-ERROR: server binary {} not built (the ./check driver builds it)", crate::ebin::server_binary().display());
        return 2;
    }
    let ls: Vec<crate::ebin::Launch> = if let Some(file) = replay {
        let s = std::fs::read_to_string(file).unwrap_or_default();
        let v: Value = serde_json::from_str(&s).unwrap_or(Value::Null);
        vec![crate::ebin::Launch::from_json(&v["replay"]["launch"])]
    } else {
        crate::ebin::launches(quick)
    };
    let mut tasks: Vec<Value> = ls.iter().map(|l| l.to_json()).collect();
    if replay.is_none() {
        // three addresses of which the k-th is taken by another program at start-up
        for k in 0..3 {
            for via in if quick { vec!["flag"] } else { vec!["flag", "flag-comma-list", "env"] } {
                tasks.push(json!({"occupied": k, "via": via}));
            }
        }
    }
    let mut pool = crate::pool::Pool::spawn(threads().min(12), "bin", &json!({"seed": seed()}));
    let results = pool.map(&tasks);
    drop(pool);
    let mut requests = 0u64;
    let mut served = 0u64;
    for (k, r) in results.iter().enumerate() {
        match r {
            Ok(res) => {
                if let Some(e) = res["error"].as_str() {
                    rep.machinery_errors.push(e.to_string());
                    continue;
                }
                requests += res["requests"].as_u64().unwrap_or(0);
                served += 1;
                for f in res["findings"].as_array().cloned().unwrap_or_default() {
                    let class = f["class"].as_str().unwrap_or("");
                    if class == "machinery" {
                        rep.machinery_errors.push(f["msg"].as_str().unwrap_or("").to_string());
                        continue;
                    }
                    if class == "no-cache-control" {
                        continue; // C20's business (its check runs these sessions too)
                    }
                    rep.violations.push(Violation {
                        property: "C17".into(),
                        signature: format!("ebin|{class}"),
                        message: format!("configuration {}: {}", tasks[k], f["msg"].as_str().unwrap_or("")),
                        replay: json!({"engine": "ebin", "launch": tasks[k]}),
                    });
                }
            }
            Err(e) => rep.machinery_errors.push(format!("bin worker: {e}")),
        }
    }
    if replay.is_some() {
        if let Some(v) = rep.violations.first() {
            println!("VIOLATION property=C17 replay={}", replay.unwrap());
            println!("  {}", v.message);
            return 1;
        }
        println!("replay: no violation of C17");
        return 0;
    }
    rep.cov("evaluations", json!(served));
    rep.cov("distinct_nontrivial", json!(tasks.len()));
    rep.cov("rule", json!("one evaluation = one launch of the real executable built from /repo with one configuration (listen addresses x how they are given x data dir by flag/env x allow-list size and how it is given x snapshot-versions and snapshot-days values by flag/env), followed by a scripted protocol session over real TCP spread over all listen addresses (urgency compared with the model for the configured targets, snapshot aged from outside), an allow-list probe on all four endpoints for listed and unlisted ids, SIGKILL, restart on the same directory and a full re-read; plus launches with three addresses of which one is taken by another program (the server may refuse to start, it must not start on the others only); quick: one dimension varied at a time plus all-env / all-flag; thorough: full product. Every configuration is distinct and non-default in at least one dimension except the base one"));
    rep.cov("http_requests_over_tcp", json!(requests));
    rep.cov("samples", json!([tasks[0], tasks[tasks.len() / 2], tasks[tasks.len() - 1]]));
    rep.cov("exhaustive", json!(true));
    rep.assume("real processes, sockets and actix worker threads are not under a scheduler; the session is sequential so observations are deterministic; this is exhaustive enumeration of configurations, not of schedules");
    rep.assume("loopback only (IPv4, IPv6, localhost)");
    rep.finish()
}

// ---------------------------------------------------------------------------------------------
// C19: corpus of the pinned release

fn c19_check(tier: &str, replay: Option<&str>) -> i32 {
    let quick = tier != "thorough";
    let mut rep = Report::new("C19", tier, "exploration");
    let root = crate::ecorpus::corpus_dir();
    let mut dirs: Vec<std::path::PathBuf> = std::fs::read_dir(&root).map(|rd| rd.flatten().map(|e| e.path()).filter(|p| p.join("meta.json").exists()).collect()).unwrap_or_default();
    dirs.sort();
    if let Some(file) = replay {
        let s = std::fs::read_to_string(file).unwrap_or_default();
        let v: Value = serde_json::from_str(&s).unwrap_or(Value::Null);
        let d = std::path::PathBuf::from(v["replay"]["dir"].as_str().unwrap_or(""));
        let (f, _, _) = crate::ecorpus::check_fixture(&d, v["replay"]["depth"].as_u64().unwrap_or(1) as usize);
        if let Some((_, m)) = f.first() {
            println!("VIOLATION property=C19 replay={file}");
            println!("  {m}");
            return 1;
        }
        println!("replay of {file}: no violation of C19");
        return 0;
    }
    if dirs.is_empty() {
        eprintln!("MACHINERY-ERROR: no fixtures under {}", root.display());
        return 2;
    }
    let depth = if quick { 1 } else { 2 };
    // Snapshot ages are whole days since the recorded timestamps. If one of them is about to
    // tick over during this run, the expectation computed now and the server's own clock a few
    // seconds later could disagree by a day: wait until the tick has passed (at most a few
    // minutes, once a day; all fixtures were written within one minute).
    {
        let now = chrono::Utc::now().timestamp();
        let horizon = if quick { 240 } else { 900 };
        let mut wait = 0i64;
        for d in &dirs {
            if let Some(m) = std::fs::read_to_string(d.join("meta.json")).ok().and_then(|s| serde_json::from_str::<Value>(&s).ok()) {
                if let Some(o) = m["snapshot_ts"].as_object() {
                    for ts in o.values().filter_map(|x| x.as_i64()) {
                        let to_tick = 86400 - (now - ts).rem_euclid(86400);
                        if to_tick <= horizon {
                            wait = wait.max(to_tick + 2);
                        }
                    }
                }
            }
        }
        if wait > 0 {
            eprintln!("C19: waiting {wait} s for a fixture's snapshot age to tick over");
            std::thread::sleep(std::time::Duration::from_secs(wait as u64));
        }
    }
    let tasks: Vec<Value> = dirs.iter().map(|d| json!({"dir": d.display().to_string(), "depth": depth})).collect();
    let mut pool = crate::pool::Pool::spawn(threads(), "corpus", &json!({}));
    let results = pool.map(&tasks);
    drop(pool);
    let mut states = 0u64;
    let mut transitions = 0u64;
    let mut with_wal = 0u64;
    for (k, r) in results.iter().enumerate() {
        match r {
            Ok(res) => {
                if let Some(e) = res["error"].as_str() {
                    rep.machinery_errors.push(e.to_string());
                    continue;
                }
                states += res["states"].as_u64().unwrap_or(0);
                transitions += res["transitions"].as_u64().unwrap_or(0);
                if dirs[k].join(format!("{}-wal", crate::sut::DB_FILE)).exists() {
                    with_wal += 1;
                }
                for f in res["findings"].as_array().cloned().unwrap_or_default() {
                    let class = f["class"].as_str().unwrap_or("");
                    if class == "machinery" {
                        rep.machinery_errors.push(f["msg"].as_str().unwrap_or("").to_string());
                        continue;
                    }
                    rep.violations.push(Violation {
                        property: "C19".into(),
                        signature: format!("ecorpus|{class}"),
                        message: f["msg"].as_str().unwrap_or("").to_string(),
                        replay: json!({"engine": "ecorpus", "dir": tasks[k]["dir"], "depth": depth}),
                    });
                }
            }
            Err(e) => rep.machinery_errors.push(format!("corpus worker: {e}")),
        }
    }
    rep.cov("evaluations", json!(dirs.len()));
    rep.cov("distinct_nontrivial", json!(dirs.len()));
    rep.cov("rule", json!("one evaluation = one committed data directory written by the pinned tree (a6bc6ed): every canonical state the history exploration reaches at its quick bound (2 clients depth 3, 1 client depth 5), plus directories with 10 KB - 1 MB payloads after a clean shutdown and after a kill with a leftover write-ahead log (commit not checkpointed; mid-checkpoint). Each is copied, opened by the current code on three implementations (library, HTTP, reopened before every request), its complete stored content compared with the recorded expectation (raw tables + API view + chain walks + snapshot), and the history continued from there by the E-SEQ explorer (every request of the alphabet, accepted or not; mutating ones followed to the continuation depth). All fixtures are distinct states by construction"));
    rep.cov("fixtures_with_leftover_wal", json!(with_wal));
    rep.cov("continuation_depth", json!(depth));
    rep.cov("states_explored_from_fixtures", json!(states));
    rep.cov("transitions_from_fixtures", json!(transitions));
    rep.cov("samples", json!(dirs.iter().take(3).map(|d| d.file_name().unwrap().to_string_lossy().to_string()).collect::<Vec<_>>()));
    rep.cov("exhaustive", json!(true));
    rep.assume("exhaustive over the committed corpus; the corpus covers the quick exploration bound of the pinned tree, not every database that release could write");
    rep.assume("fixtures were generated by tools/gen_corpus.sh from a checkout of a6bc6ed carrying only the (behaviour-neutral, SQLite-untouched) hook commits");
    rep.finish()
}
