#!/usr/bin/env python3
"""Regenerates MANIFEST.json from the table below (kept in one place so it always validates)."""
import json, sys

CHECKS = {
 "C01": ("E-SEQ", "model_checking", "explicit-state BFS over request histories on the real code (5 implementations in lock step), chain-walk + no-fork invariant in every state",
         "Every reachable state within the depth bound is probed on the real in-memory, SQLite, SQLite-reopened and HTTP implementations: the walk from the chain base must return exactly the versions the implementation itself acknowledged, in order, and no two stored versions may share a parent. Exhaustive within the stated alphabet/depth; the right level because the property quantifies over histories, which a BFS over the real transition function enumerates.", "4.1, 5/C01"),
 "C02": ("E-SEQ", "model_checking", "explicit-state BFS; every AddVersion transition compared with the reference model (response, fresh id, stored row, untouched state on reject)",
         "Every AddVersion transition (every parent class, from every reachable state within the bound) is executed on library and HTTP entries over both backends and compared with the reference model: acceptance iff empty or parent = latest, fresh non-nil id, stored parent/payload, conflict names latest and changes nothing.", "4.1, 5/C02"),
 "C03": ("E-SCHED", "model_checking", "stateless model checking of the real code on real threads under a controlled scheduler: DFS over schedules with iterative preemption bounding; brute-force linearizability against the reference model (responses + final state)",
         "Every pairing of the eight request kinds (plus two-request threads; thorough: triples, SQLite lock-level scheduling points, a concurrently constructed instance) from three initial states runs on 2-3 real OS threads through the library and the actix handlers over the in-memory backend, one SQLite instance, one SQLite instance per thread and one SQLite instance per *process* (agent processes driven by the same scheduler over pipes, so SQLite's cross-process locking is exercised). The explorer owns every switch (points before Storage::txn, every StorageTxn call, transaction drop, request start); blocking is observed through SQLite's busy handler and the in-memory mutex's try_lock, never assumed. All schedules up to the preemption bound are executed; each must be explained by some real-time-respecting sequential order of the reference model, including the final stored state, and no 5xx/Err/deadlock may appear.", "4.3, 5/C03"),
 "C04": ("E-CRASH", "fault_enumeration", "exhaustive crash-point enumeration: every state-changing VFS call of a request history is a crash point; process-crash image + power-loss images (synced content + every subset of unsynced writes) recovered by the real code",
         "The real SQLite write path runs over a shim VFS that logs every file operation; for every crash point of every history the process-crash image and all power-loss images (all subsets of unsynced writes up to the cap, deviation-bounded above it; thorough: torn sectors) are materialised and recovered by the real SqliteStorage::new, integrity-checked, read back through the protocol and compared with the reference model after the acknowledged prefix or that prefix plus the whole in-flight request; service must continue. The log replayed on the device model must reproduce the on-disk files byte for byte (conformance).", "4.4, 5/C04"),
 "C05": ("E-FAULT", "fault_enumeration", "exhaustive fault-plan enumeration at two layers: k-th Storage/StorageTxn call and k-th VFS call of a request fails (before/after effect, one-shot/sticky), single and double faults, fault-free epilogue",
         "For every request kind in several states, through library and HTTP entries on the SQLite backend, every storage-trait call and every VFS call the request makes is failed in turn (before or after taking effect; one-shot or sticky; pairs for double faults). Oracle: correct acknowledgement only with the after-state; an error only with exactly the before- or after-state (full dump); never a wrong non-error answer; the following requests are served per the model, without waiting for a lock; integrity_check ok.", "4.5, 5/C05"),
 "C06": ("E-PAYLOAD", "exploration", "exhaustive product of a boundary-structured payload alphabet (length x byte class x chunking x route x backend x entry), each uploaded through the real code and read back",
         "Model checking's exhaustive enumeration applied to an input alphabet rather than a state space: every payload of the alphabet (all lengths 1..300 and 3800..4200, page/overflow/varint boundaries, 7 byte classes, numeric-looking texts, all one-byte payloads, all chunk compositions of short bodies and boundary splits of long ones) is uploaded and read back on both backends through library and in-process HTTP. Exhaustive over the alphabet only; the payload space itself is not enumerable, hence level exploration.", "5/C06"),
 "C07": ("E-SEQ", "model_checking", "explicit-state BFS; every acknowledged version re-read in every later state, also after reopen",
         "For every state within the bound, every version the implementation acknowledged earlier on that path is re-read by its parent and must come back with identical id, parent and bytes, including after reopening the database.", "4.1, 5/C07"),
 "C08": ("E-SEQ", "model_checking", "explicit-state BFS; GetChildVersion answer for every id class checked against the AddVersion transition from the same state",
         "In every reachable state, GetChildVersion(p) for every class of p is compared with the stored data and with the outcome of AddVersion(p) executed from that same state on the same implementation, plus the reference model.", "4.1, 5/C08"),
 "C09": ("E-SEQ", "model_checking", "explicit-state BFS over multi-client histories with two-run non-interference (projection re-run alone) in every state",
         "For every multi-client history within the bound each client's projection is re-run alone on a fresh implementation and compared response by response; every request must leave other clients' stored rows untouched.", "4.1, 5/C09"),
 "C10": ("E-SEQ", "model_checking", "explicit-state BFS; every AddSnapshot transition compared with the model's acceptance rule, declined => byte-identical record, position monotone",
         "All chain lengths up to the bound, all snapshot positions and all choices of v are enumerated on both backends; replace iff the window rule, declined requests leave the record (bytes, counter, timestamp) untouched; the unspecified corner (v = non-nil chain base) accepts either outcome.", "4.1, 5/C10"),
 "C11": ("E-SEQ+E-SCHED", "model_checking", "explicit-state BFS (GetSnapshot vs the model's last accepted snapshot in every state, chain walked from it) + controlled-scheduler exploration of AddSnapshot overlapping GetSnapshot/AddVersion/AddSnapshot",
         "In every reachable state GetSnapshot must return id and bytes of the last accepted upload (or none), and following children from that id must reach latest without gone. The concurrent half runs the snapshot pairings under the controlled scheduler (all schedules up to the preemption bound, linearizability oracle, so id and bytes always come from the same upload).", "4.1, 5/C11"),
 "C12": ("E-SWEEP+E-SEQ", "model_checking", "full product of boundary configurations x boundary measures on the real Server::add_version (both backends) + explicit-state BFS with snapshot ageing; exact-arithmetic model",
         "The urgency computation is executed for the full product of boundary target values (0, 1, odd, type extremes, thirds of the type range) and boundary measures around every threshold, on both backends, each under catch_unwind with overflow checks on, and compared with an exact-arithmetic model; monotonicity is checked over the swept grid. Histories with ageing snapshots check that the stored counter equals the number of versions accepted since the snapshot and that the reported urgency follows from the pre-request record.", "5/C12"),
 "C13": ("E-SEQ", "model_checking", "explicit-state BFS with in-memory, SQLite and SQLite-reopened-before-every-request in lock step; responses and dumps compared pairwise",
         "Every transition and probe is executed in lock step on the in-memory backend, SQLite, and SQLite with a new storage object before every request; responses (modulo random ids) and stored state must be identical, and answers must not change across an explicit reopen.", "4.1, 5/C13"),
 "C14": ("E-SEQ", "model_checking", "explicit-state BFS with HTTP and library twins on twin storages; exact header/status/body encoding checked on every response",
         "Every transition and probe goes through the real actix app and through the library on a twin storage; status, X-Version-Id, X-Parent-Version-Id, X-Snapshot-Request, Content-Type and body must be exactly the encoding of the library outcome, including absence of headers that do not apply.", "4.1, 5/C14"),
 "C15": ("E-HTTP+E-BIN", "model_checking", "exhaustive request-grammar product (route x method x client-id form x path-id form x content-type form x body class) through the real actix app on servers holding state, storage-access counter + dump bracket; plus an exhaustive wire-level grammar of malformed / cut-short bodies (framing x where it is cut x how the client goes on) sent over TCP to the real executable",
         "Every request of the grammar product (about 62 000 per server state, plus limit-sized bodies generated lazily) is sent through the real app on in-memory and SQLite servers holding non-trivial and empty state: never 5xx or panic; malformed in any dimension => 4xx and stored state identical (no writing storage call, else full dump compare); exactly-limit bodies accepted, limit+1 refused. The wire-level part drives the executable built from /repo over loopback TCP with every body framing (Content-Length, chunked) x every way of cutting it short or contradicting it x both upload routes, and compares the stored state before and after through the API. Truncated chunked uploads followed by a half-close are an open known finding (root cause in the HTTP library), see known_findings.json.", "4.2, 5/C15, 6"),
 "C16": ("E-HTTP+E-SEQ", "model_checking", "exhaustive request-grammar product under allow-lists {none, empty, {A}, {A,B}} with a storage-access counter; listed clients explored by BFS in lock step with a list-less twin",
         "For every allow-list shape and every request of the grammar: unlisted and otherwise well-formed => exactly 403, unlisted and malformed => 4xx, zero storage transactions in both cases (counted at the Storage trait), listed or list-less => never 403. Listed clients' histories are explored by E-SEQ on allow-listed servers in lock step with list-less twins and must answer identically.", "4.2, 5/C16"),
 "C17": ("E-BIN", "exploration", "exhaustive enumeration of launch configurations of the real executable (flag / comma list / environment for every option), scripted protocol session over real TCP on every listen address, SIGKILL + restart, urgency compared with the model",
         "Model checking's exhaustive enumeration applied to the configuration space: the executable built from /repo is launched for every configuration (quick: one dimension at a time and all-flag / all-env; thorough: the full product of listen-address sets x how given x data dir x allow-list x snapshot targets), driven over loopback TCP on every configured address, its snapshot aged from outside, killed with SIGKILL and restarted on the same directory. Oracle: every address serves; the database lives in the given directory and the restarted server serves the same history byte for byte; exactly the listed ids are served (403 otherwise, on all four endpoints); X-Snapshot-Request follows the reference model for the configured targets. Processes and sockets are not under a scheduler, hence level exploration.", "5/C17"),
 "C18": ("E-SEQ", "model_checking", "explicit-state BFS; complete dump (raw tables + API view) compared before/after every non-mutating outcome",
         "Every read, conflicting AddVersion and declined AddSnapshot in every reachable state within the bound is bracketed by complete dumps (raw SQLite tables and API view) which must be identical.", "4.1, 5/C18"),
 "C19": ("E-CORPUS", "exploration", "every data directory of a committed corpus written by the pinned tree (all canonical states of the quick exploration bound + crash images with leftover WAL + large payloads) opened by the current code, dumped, and continued by the E-SEQ explorer",
         "406 data directories written by the pinned commit a6bc6ed (every canonical state reached by the history exploration at its quick bound, plus clean and killed-mid-write directories with 10 KB - 1 MB payloads and a leftover write-ahead log) are opened by the current code on three implementations; the complete stored content must equal the recorded expectation and the E-SEQ explorer continues every history from there (every request of the alphabet; thorough: two steps deep). Exhaustive over the corpus only, hence level exploration.", "5/C19"),
 "C20": ("E-HTTP+E-SEQ+E-BIN", "model_checking", "Cache-Control monitor on every response of the exhaustive request-grammar product and of the BFS over histories (all routes, methods, outcomes, refusals, unknown routes), and on every response of scripted sessions with the real executable including storage-failure answers",
         "Every response produced by the grammar product (all routes, methods, malformed variants, unknown routes, allow-list refusals) and by the history exploration through both HTTP implementations must carry Cache-Control containing no-store; so must every response the real executable gives over TCP in the E-BIN sessions, including 500 answers provoked by making its storage fail underneath it.", "4.2, 5/C20"),
}
NOTE = {
 "default": "Trusted: the reference model (harness/src/model.rs), the harness itself, rustc; SQLite is part of the subject. Bounds (depth, clients, alphabet) are in the evidence file; nothing is claimed beyond them.",
}
NOT_YET = {}

def main():
    checks = []
    for pid in sorted(CHECKS):
        eng, level, tech, text, ref = CHECKS[pid]
        checks.append({
            "property_id": pid,
            "quick_cmd": f"./check {pid} quick",
            "thorough_cmd": f"./check {pid} thorough",
            "evidence_file": f"/verif/evidence/{pid}.json",
            "replay_cmd_template": f"./check {pid} quick --replay {{path}}",
            "engine": eng,
            "level_claimed": {"category": level, "text": text, "design_ref": ref},
            "level_note": NOTE.get(pid, NOTE["default"]),
            "technique": tech,
        })
    props = [json.loads(l)["id"] for l in open("/verif/properties.jsonl")]
    na = [{"property_id": p, "reason": NOT_YET.get(p, "check not built yet in this revision of /verif (planned engine in DESIGN.md section 5); not claimed until it runs")} for p in props if p not in CHECKS]
    m = {
        "version": 1,
        "setup_cmd": "cd /verif/harness && CARGO_NET_OFFLINE=true cargo build --release --offline && cd /repo && CARGO_NET_OFFLINE=true CARGO_TARGET_DIR=/verif/target/repo-bin cargo build --release --offline -p taskchampion-sync-server --bin taskchampion-sync-server",
        "hooks": {
            "guard": "cargo feature `verif-hooks` of crate taskchampion-sync-server-core",
            "enable": "the harness depends on /repo/core by path with features=[\"verif-hooks\"]; cargo feature unification turns it on for /repo/sqlite and /repo/server too",
            "baseline_off_cmd": "cd /repo && cargo test --workspace --no-fail-fast --offline",
            "source_commits": ["b92f929", "004e104"],
            "fix_commits": ["2d7c899", "d223657", "9dc73cd"],
            "add_only": True,
        },
        "engines": [
            {"name": "E-BIN", "path": "harness/src/ebin.rs", "serves_properties": ["C15", "C17", "C20"], "kind_free_text": "exhaustive configuration product against the real executable over loopback TCP"},
            {"name": "E-CORPUS", "path": "harness/src/ecorpus.rs + fixtures/pinned + tools/gen_corpus.sh", "serves_properties": ["C19"], "kind_free_text": "committed corpus of data directories written by the pinned tree; opened, compared and continued by the current code"},
            {"name": "E-SCHED", "path": "harness/src/sched.rs + harness/src/esched.rs", "serves_properties": ["C03", "C11"], "kind_free_text": "own controlled scheduler over real OS threads running the real code; preemption-bounded DFS; linearizability oracle"},
            {"name": "E-CRASH", "path": "harness/src/ecrash.rs", "serves_properties": ["C04"], "kind_free_text": "VFS operation log -> exhaustive crash images -> recovery by the real code"},
            {"name": "E-FAULT", "path": "harness/src/efault.rs", "serves_properties": ["C05"], "kind_free_text": "exhaustive single/double fault plans at the storage-trait seam and at the VFS"},
            {"name": "E-HTTP", "path": "harness/src/ehttp.rs", "serves_properties": ["C15", "C16", "C20"], "kind_free_text": "exhaustive enumeration of a request grammar against the real actix app on live state"},
            {"name": "E-PAYLOAD", "path": "harness/src/epayload.rs", "serves_properties": ["C06"], "kind_free_text": "exhaustive enumeration of a payload/chunking alphabet through the real upload and read paths"},
            {"name": "E-SWEEP", "path": "harness/src/esweep.rs", "serves_properties": ["C12"], "kind_free_text": "exhaustive product of boundary configurations and measures executed on the real urgency computation"},
            {"name": "E-SEQ", "path": "harness/src/eseq.rs", "serves_properties": [p for p in sorted(CHECKS) if "E-SEQ" in CHECKS[p][0]], "kind_free_text": "explicit-state breadth-first exploration of symbolic request histories; the transition function is the real Server / actix handler / storage code; reference model compared on every transition"},
        ],
        "checks": checks,
        "notes": "All checks: ./check <ID> <quick|thorough> [--replay file]; exit 0 held / 1 violation / 2 machinery error. known_findings.json lists open and fixed findings.",
        "not_applicable": na,
    }
    json.dump(m, open("/verif/MANIFEST.json", "w"), indent=1)
    print("wrote MANIFEST.json with", len(checks), "checks,", len(na), "not claimed")

main()
